package aggsender

// BOUNDED stand-in for assumption A7 (property C18), run by /verif/check C18 through `go test -overlay`.
// The deductive obligations for isNotificationRequired / percentEpoch treat float64 as exact real arithmetic. This
// harness runs the REAL functions for every epoch length N in 1..bound, every position inside an epoch and every
// configured percentage 0..100 (and a second epoch, to cover epoch arithmetic) and compares the Boolean decision with
// the exact rational comparison  100*elapsed >= min(pct*N, 100*(N-1)).  It is exhaustive below the bound and says
// nothing above it: labelled bounded in the evidence, never counted as proved.

import (
	"fmt"
	"os"
	"runtime"
	"strconv"
	"sync"
	"sync/atomic"
	"testing"

	"github.com/agglayer/aggkit/log"
)

func TestVerifBoundedC18(t *testing.T) {
	bound := 400
	if s := os.Getenv("VERIF_C18_BOUND"); s != "" {
		if v, err := strconv.Atoi(s); err == nil {
			bound = v
		}
	}
	const start = 7 // StartingEpochBlock
	var evals, nontrivial, bad int64
	var first atomic.Value
	var wg sync.WaitGroup
	sem := make(chan struct{}, runtime.NumCPU())
	for n := 1; n <= bound; n++ {
		wg.Add(1)
		sem <- struct{}{}
		go func(n int) {
			defer wg.Done()
			defer func() { <-sem }()
			var ev, nt int64
			for pct := 0; pct <= 100; pct++ {
				e := &EpochNotifierPerBlock{logger: log.GetDefaultLogger(), Config: ConfigEpochNotifierPerBlock{
					StartingEpochBlock: start, NumBlockPerEpoch: uint(n), EpochNotificationPercentage: uint(pct)}}
				for epoch := uint64(1); epoch <= 2; epoch++ {
					for el := 0; el < n; el++ {
						block := e.startingBlockEpoch(epoch) + uint64(el)
						got, closing := e.isNotificationRequired(block, epoch)
						thr := pct * n
						if m := 100 * (n - 1); thr > m {
							thr = m
						}
						want := 100*el >= thr
						ev++
						if 100*el == thr || 100*el+100 > thr && 100*el < thr {
							nt++ // on the threshold or the last block before it
						}
						if got != want || closing != epoch {
							if atomic.AddInt64(&bad, 1) == 1 {
								first.Store(fmt.Sprintf("NumBlockPerEpoch=%d EpochNotificationPercentage=%d StartingEpochBlock=%d block=%d (elapsed %d, epoch %d): isNotificationRequired=%v,%d exact=%v,%d",
									n, pct, start, block, el, epoch, got, closing, want, epoch))
							}
						}
					}
				}
			}
			atomic.AddInt64(&evals, ev)
			atomic.AddInt64(&nontrivial, nt)
		}(n)
	}
	wg.Wait()
	fmt.Printf("VERIF-BOUNDED C18 bound=%d evaluations=%d nontrivial=%d mismatches=%d\n", bound, evals, nontrivial, bad)
	if bad > 0 {
		fmt.Printf("VERIF-BOUNDED-FIRST %s\n", first.Load())
		t.Fail()
	}
}
