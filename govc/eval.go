package main

// Evaluation of contract expressions (Go expression syntax + old/forall/exists/ite/==>) to terms.

import (
	"fmt"
	"go/ast"
	"go/constant"
	"go/token"
	"go/types"
	"math/big"
	"os"
	"strconv"
	"strings"

	"golang.org/x/tools/go/ssa"
)

type tv struct {
	v Val
	t types.Type // nil for spec-only values (sort is in the term)
}

type nilMarker struct{}

type loopCtx struct {
	fr *frame
	l  *Loop
}

type EvalCtx struct {
	ex      *Exec
	st      *State
	old     *State
	vars    map[string]tv
	pkgPath string
	fr      *frame
	lc      *loopCtx
	clause  *Clause
	guard   *Term
	// wf, when set, collects heap well-formedness facts (a reference read from memory is below the allocation
	// frontier of the state it is read in) for the loads this evaluation performs; only assumption sites set it
	wf *wfCollector
}

type wfCollector struct{ facts []*Term }

// wfLoad records that the pointer-like value v, read from memory in the current state, is an allocated reference.
func (c *EvalCtx) wfLoad(v Val, t types.Type) {
	if c.wf == nil || t == nil {
		return
	}
	tm, ok := v.(*Term)
	if !ok {
		return
	}
	switch u := t.Underlying().(type) {
	case *types.Pointer, *types.Map, *types.Chan:
		c.wf.facts = append(c.wf.facts, c.ex.p.Lt(tm, c.st.heapTop))
	case *types.Slice:
		c.wf.facts = append(c.wf.facts, c.ex.p.Lt(c.ex.p.Acc(tm, 0), c.st.heapTop))
	case *types.Basic:
		// a value read from memory lies in the range of its type
		if u.Info()&types.IsInteger != 0 {
			if r := c.ex.tm.InRange(tm, t, 0); !r.IsTrue() {
				c.wf.facts = append(c.wf.facts, r)
			}
		}
	}
}

// evalAssume evaluates a clause that is about to be assumed, strengthened with the well-formedness facts of its loads.
func (ex *Exec) evalAssume(ctx *EvalCtx, cl *Clause) *Term {
	ctx.wf = &wfCollector{}
	t := ex.evalBool(ctx, cl)
	fs := ctx.wf.facts
	ctx.wf = nil
	if len(fs) == 0 {
		return t
	}
	return ex.p.And(append([]*Term{t}, fs...)...)
}

func termMentions(t, v *Term, seen map[*Term]bool) bool {
	if t == v {
		return true
	}
	if seen[t] {
		return false
	}
	seen[t] = true
	for _, a := range t.Args {
		if termMentions(a, v, seen) {
			return true
		}
	}
	return false
}

func (c *EvalCtx) errf(format string, args ...interface{}) {
	where := ""
	if c.clause != nil {
		where = fmt.Sprintf("%s:%d: in %q: ", c.clause.File, c.clause.Line, c.clause.Text)
	}
	panic(execPanic{where + fmt.Sprintf(format, args...)})
}

func (ex *Exec) ctxFor(fr *frame, st *State, lc *loopCtx) *EvalCtx {
	ctx := &EvalCtx{ex: ex, st: st, old: ex.old, vars: map[string]tv{}, fr: fr, lc: lc}
	if fr.fn.Pkg != nil {
		ctx.pkgPath = fr.fn.Pkg.Pkg.Path()
	}
	// the names the contract uses for the parameters (positional, receiver first), where it gives them: they stand for
	// the parameters whatever the code calls them today
	alias := map[string]string{} // code name -> contract name
	if fc := ex.P.ContractFor(fr.fn); fc != nil && len(fc.Params) == len(fr.fn.Params) {
		for i, p := range fr.fn.Params {
			if fc.Params[i] != "" && fc.Params[i] != "_" {
				alias[p.Name()] = fc.Params[i]
			}
		}
	}
	for _, p := range fr.fn.Params {
		if v, ok := st.vals[p]; ok {
			ctx.vars[p.Name()] = tv{v, p.Type()}
			if a, ok := alias[p.Name()]; ok {
				ctx.vars[a] = tv{v, p.Type()}
			}
		}
	}
	if lc != nil {
		// a parameter that is reassigned in the loop is, inside the loop's clauses, its current value (the header phi)
		for _, in := range lc.l.Header.Instrs {
			ph, ok := in.(*ssa.Phi)
			if !ok {
				break
			}
			if _, isParam := ctx.vars[ph.Comment]; isParam {
				if v, ok := st.vals[ph]; ok {
					ctx.vars[ph.Comment] = tv{v, ph.Type()}
					if a, ok := alias[ph.Comment]; ok {
						ctx.vars[a] = tv{v, ph.Type()}
					}
				}
			}
		}
	}
	return ctx
}

func (ex *Exec) evalBool(ctx *EvalCtx, cl *Clause) *Term {
	ctx.clause = cl
	r := ctx.eval(cl.Expr)
	t, ok := r.v.(*Term)
	if !ok || t.Sort.Kind != SBool {
		ctx.errf("clause is not boolean")
	}
	return t
}

func (ex *Exec) evalTerm(ctx *EvalCtx, cl *Clause) *Term {
	ctx.clause = cl
	r := ctx.eval(cl.Expr)
	return ctx.asTerm(r)
}

func (c *EvalCtx) asTerm(r tv) *Term {
	switch v := r.v.(type) {
	case *Term:
		return v
	case *PtrV, *ClosureV:
		t, err := c.ex.ptrTerm(v)
		if err != nil {
			c.errf("%v", err)
		}
		return t
	case nilMarker:
		return c.ex.p.Int(0)
	}
	c.errf("expression does not denote a value (%T)", r.v)
	return nil
}

func (c *EvalCtx) pkg() *types.Package {
	if pp, ok := c.ex.P.PPkg[c.pkgPath]; ok {
		return pp.Types
	}
	return nil
}

func (c *EvalCtx) withState(st *State) *EvalCtx {
	n := *c
	n.st = st
	return &n
}

func (c *EvalCtx) bind(name string, v tv) *EvalCtx {
	n := *c
	n.vars = map[string]tv{}
	for k, x := range c.vars {
		n.vars[k] = x
	}
	n.vars[name] = v
	return &n
}

func flattenOr(e ast.Expr, out *[]ast.Expr) {
	if b, ok := e.(*ast.BinaryExpr); ok && b.Op == token.LOR {
		flattenOr(b.X, out)
		flattenOr(b.Y, out)
		return
	}
	*out = append(*out, e)
}

func (c *EvalCtx) evalOrChain(parts []ast.Expr) *Term {
	p := c.ex.p
	for i, e := range parts {
		if id, ok := e.(*ast.Ident); ok && id.Name == "__IMPL__" {
			if i == 0 || i == len(parts)-1 {
				c.errf("misplaced ==>")
			}
			ante := c.evalOrChain(parts[:i])
			// evaluate consequent lazily only in the logical sense; both are total terms
			cons := c.evalOrChain(parts[i+1:])
			return p.Implies(ante, cons)
		}
	}
	var ts []*Term
	for _, e := range parts {
		t := c.asTerm(c.eval(e))
		if t.Sort.Kind != SBool {
			c.errf("operand of || is not boolean")
		}
		ts = append(ts, t)
	}
	return p.Or(ts...)
}

func (c *EvalCtx) eval(e ast.Expr) tv {
	ex := c.ex
	p := ex.p
	switch e := e.(type) {
	case *ast.ParenExpr:
		return c.eval(e.X)
	case *ast.BasicLit:
		switch e.Kind {
		case token.INT:
			v, ok := new(big.Int).SetString(strings.ReplaceAll(e.Value, "_", ""), 0)
			if !ok {
				c.errf("bad int literal %s", e.Value)
			}
			return tv{p.IntBig(v), nil}
		case token.FLOAT:
			r, ok := new(big.Rat).SetString(e.Value)
			if !ok {
				c.errf("bad float literal %s", e.Value)
			}
			return tv{p.Real(r), nil}
		case token.STRING:
			s, _ := strconv.Unquote(e.Value)
			return tv{ex.strLit(s), types.Typ[types.String]}
		case token.CHAR:
			s, _ := strconv.Unquote(e.Value)
			return tv{p.Int(int64([]rune(s)[0])), nil}
		}
	case *ast.Ident:
		return c.ident(e.Name)
	case *ast.SelectorExpr:
		return c.selector(e)
	case *ast.StarExpr:
		x := c.eval(e.X)
		pt, ok := x.t.Underlying().(*types.Pointer)
		if !ok {
			c.errf("* of non-pointer")
		}
		return c.loadPtr(x.v, pt.Elem())
	case *ast.IndexExpr:
		x := c.eval(e.X)
		i := c.asTerm(c.eval(e.Index))
		return c.index(x, i)
	case *ast.UnaryExpr:
		x := c.eval(e.X)
		switch e.Op {
		case token.NOT:
			return tv{p.Not(c.asTerm(x)), types.Typ[types.Bool]}
		case token.SUB:
			return tv{p.Neg(c.asTerm(x)), x.t}
		case token.ADD:
			return x
		case token.AND:
			// &x.f : address
			c.errf("address-of not supported in contracts")
		}
	case *ast.BinaryExpr:
		if e.Op == token.LOR {
			var parts []ast.Expr
			flattenOr(e, &parts)
			return tv{c.evalOrChain(parts), types.Typ[types.Bool]}
		}
		if e.Op == token.LAND {
			a := c.asTerm(c.eval(e.X))
			if a.IsFalse() {
				return tv{a, types.Typ[types.Bool]}
			}
			b := c.asTerm(c.eval(e.Y))
			return tv{p.And(a, b), types.Typ[types.Bool]}
		}
		x, y := c.eval(e.X), c.eval(e.Y)
		return c.binary(e.Op, x, y)
	case *ast.CallExpr:
		return c.call(e)
	case *ast.CompositeLit:
		return c.composite(e)
	}
	c.errf("unsupported expression form %T", e)
	return tv{}
}

func (c *EvalCtx) binary(op token.Token, x, y tv) tv {
	p := c.ex.p
	boolT := types.Typ[types.Bool]
	if op == token.EQL || op == token.NEQ {
		var r *Term
		_, xn := x.v.(nilMarker)
		_, yn := y.v.(nilMarker)
		switch {
		case xn && yn:
			r = p.True()
		case xn || yn:
			o := x
			if xn {
				o = y
			}
			if _, isClo := o.v.(*ClosureV); isClo {
				r = p.False() // a closure value is never nil
			} else if _, isPtr := o.v.(*PtrV); isPtr {
				pv := o.v.(*PtrV)
				if pv.Kind == PHeap && len(pv.Path) == 0 {
					r = p.Eq(pv.Ref, p.Int(0))
				} else {
					r = p.False()
				}
			} else {
				t := c.asTerm(o)
				if t.Sort == c.ex.tm.SliceS {
					r = p.Eq(p.Acc(t, 0), p.Int(0))
				} else if t.Sort.Kind == SInt {
					r = p.Eq(t, p.Int(0))
				} else {
					c.errf("comparison of %s with nil", t.Sort)
				}
			}
		default:
			a, b := c.asTerm(x), c.asTerm(y)
			if a.Sort.String() != b.Sort.String() {
				c.errf("== on different sorts %s and %s", a.Sort, b.Sort)
			}
			r = p.Eq(a, b)
		}
		if op == token.NEQ {
			r = p.Not(r)
		}
		return tv{r, boolT}
	}
	a, b := c.asTerm(x), c.asTerm(y)
	if a.Sort.Kind == SInt && b.Sort.Kind == SReal {
		a = p.ToReal(a)
	}
	if a.Sort.Kind == SReal && b.Sort.Kind == SInt {
		b = p.ToReal(b)
	}
	rt := x.t
	if rt == nil {
		rt = y.t
	}
	// spec arithmetic is mathematical (unbounded): no wrapping
	switch op {
	case token.ADD:
		if a.Sort == c.ex.tm.StrS {
			f := p.Func("strcat", []*Sort{c.ex.tm.StrS, c.ex.tm.StrS}, c.ex.tm.StrS)
			return tv{p.App(f, a, b), rt}
		}
		return tv{p.arith("+", a, b), nil}
	case token.SUB:
		return tv{p.arith("-", a, b), nil}
	case token.MUL:
		return tv{p.arith("*", a, b), nil}
	case token.QUO:
		if a.Sort.Kind == SReal {
			return tv{p.RDiv(a, b), nil}
		}
		return tv{p.Div(a, b), nil}
	case token.REM:
		return tv{p.Mod(a, b), nil}
	case token.LSS:
		return tv{p.Lt(a, b), boolT}
	case token.LEQ:
		return tv{p.Le(a, b), boolT}
	case token.GTR:
		return tv{p.Gt(a, b), boolT}
	case token.GEQ:
		return tv{p.Ge(a, b), boolT}
	case token.SHL:
		if b.Op == "int" {
			return tv{p.Mul(a, p.IntBig(pow2(b.Int.Int64()))), nil}
		}
		return tv{p.Mul(a, c.ex.pow2Term(b)), nil}
	case token.SHR:
		if b.Op == "int" {
			return tv{p.Div(a, p.IntBig(pow2(b.Int.Int64()))), nil}
		}
		return tv{p.Div(a, c.ex.pow2Term(b)), nil}
	}
	c.errf("unsupported operator %s", op)
	return tv{}
}

func (c *EvalCtx) ident(name string) tv {
	ex := c.ex
	p := ex.p
	switch name {
	case "true":
		return tv{p.True(), types.Typ[types.Bool]}
	case "false":
		return tv{p.False(), types.Typ[types.Bool]}
	case "nil":
		return tv{nilMarker{}, nil}
	case "ZeroHash":
		return tv{p.Const("ZeroHash", ex.tm.HashS), nil}
	case "ZeroAddr":
		return tv{p.Const("ZeroAddr", ex.tm.AddrS), nil}
	case "heapTop":
		return tv{c.st.heapTop, nil}
	}
	if v, ok := c.vars[name]; ok {
		return v
	}
	// loop-local names
	if c.fr != nil {
		if v, ok := c.localName(name); ok {
			return v
		}
	}
	if g, ok := ex.P.CS.Ghosts[name]; ok {
		return tv{ex.ghostVar(c.st, name), ex.ghostGoType(g.Type, g.PkgPath)}
	}
	if sf, ok := ex.P.CS.Specs[name]; ok && len(sf.Params) == 0 {
		return tv{ex.specApp(sf, nil, c.pkgPath), nil}
	}
	if pk := c.pkg(); pk != nil {
		if obj := pk.Scope().Lookup(name); obj != nil {
			return c.object(obj)
		}
	}
	c.errf("unknown identifier %s", name)
	return tv{}
}

func (c *EvalCtx) object(obj types.Object) tv {
	ex := c.ex
	switch o := obj.(type) {
	case *types.Const:
		return tv{ex.constTerm(o.Val(), o.Type()), o.Type()}
	case *types.Var:
		// package-level variable
		if sp := ex.P.SSA.Package(o.Pkg()); sp != nil {
			if g, ok := sp.Members[o.Name()].(*ssa.Global); ok {
				if s := ex.sentinel(g); s != nil {
					return tv{s, o.Type()}
				}
				if cgv := ex.constGlobal(g); cgv != nil {
					return tv{cgv, o.Type()}
				}
				ptr := &PtrV{Kind: PGlobal, Glob: g, Root: o.Type()}
				ex.noOblige++
				v := ex.load(c.st, ptr, o.Type(), "")
				ex.noOblige--
				return tv{v, o.Type()}
			}
		}
		// variable of a package that is not built as SSA source: sentinel by name
		if types.Identical(o.Type(), types.Universe.Lookup("error").Type()) {
			name := o.Pkg().Name() + "." + o.Name()
			if t, ok := ex.sentinels[name]; ok {
				return tv{t, o.Type()}
			}
			t := ex.p.Const("err:"+name, IntSort)
			for _, other := range ex.sentinels {
				ex.facts = append(ex.facts, ex.p.Not(ex.p.Eq(t, other)))
			}
			ex.sentinels[name] = t
			ex.facts = append(ex.facts, ex.p.Gt(t, ex.p.Int(0)))
			ex.sentinelWrapsNothing(t)
			return tv{t, o.Type()}
		}
	}
	c.errf("cannot use object %s in a contract", obj)
	return tv{}
}

func (ex *Exec) constTerm(v constant.Value, t types.Type) *Term {
	switch v.Kind() {
	case constant.Bool:
		return ex.p.Bool(constant.BoolVal(v))
	case constant.Int:
		b, _ := new(big.Int).SetString(v.ExactString(), 10)
		if bt, ok := t.Underlying().(*types.Basic); ok && bt.Info()&types.IsFloat != 0 {
			return ex.p.Real(new(big.Rat).SetInt(b))
		}
		return ex.p.IntBig(b)
	case constant.Float:
		r, _ := new(big.Rat).SetString(v.ExactString())
		return ex.p.Real(r)
	case constant.String:
		return ex.strLit(constant.StringVal(v))
	}
	panic(execPanic{"unsupported constant kind"})
}

// localName resolves the name of a local variable of the function under execution.
func (c *EvalCtx) localName(name string) (tv, bool) {
	fr := c.fr
	st := c.st
	// loop header phis first
	if c.lc != nil {
		for _, in := range c.lc.l.Header.Instrs {
			ph, ok := in.(*ssa.Phi)
			if !ok {
				break
			}
			if ph.Comment == name {
				if v, ok := st.vals[ph]; ok {
					return tv{v, ph.Type()}, true
				}
			}
		}
	}
	// the hidden index of an enclosing range loop (a nested loop's clauses may name the outer loop's "rangeindex")
	if name == "rangeindex" {
		var found *ssa.Phi
		for _, b := range fr.fn.Blocks {
			for _, in := range b.Instrs {
				if ph, ok := in.(*ssa.Phi); ok && ph.Comment == name {
					if _, has := st.vals[ph]; has && (c.lc == nil || ph.Block() != c.lc.l.Header) {
						found = ph
					}
				}
			}
		}
		if found != nil {
			return tv{st.vals[found], found.Type()}, true
		}
	}
	// variables living in allocated cells (address-taken or captured by closures)
	for _, b := range fr.fn.Blocks {
		for _, in := range b.Instrs {
			if a, ok := in.(*ssa.Alloc); ok && a.Comment == name {
				if val, ok := st.vals[a]; ok {
					return c.loadPtr(val, a.Type().(*types.Pointer).Elem()), true
				}
			}
		}
	}
	if fr.dbg == nil {
		fr.dbg = debugNames(fr.fn)
	}
	// address-taken variables: cells
	for _, v := range fr.dbg[name+"&"] {
		if val, ok := st.vals[v]; ok {
			pt := v.Type().Underlying().(*types.Pointer).Elem()
			return c.loadPtr(val, pt), true
		}
	}
	var cands []ssa.Value
	for _, v := range fr.dbg[name] {
		if _, ok := st.vals[v]; ok {
			cands = append(cands, v)
		} else if _, isC := v.(*ssa.Const); isC {
			cands = append(cands, v)
		}
	}
	if len(cands) == 1 {
		return tv{c.ex.val(st, cands[0]), cands[0].Type()}, true
	}
	if len(cands) > 1 {
		// prefer a phi of the current loop header, then the latest defined
		if c.lc != nil {
			for _, v := range cands {
				if ph, ok := v.(*ssa.Phi); ok && ph.Block() == c.lc.l.Header {
					return tv{c.ex.val(st, v), v.Type()}, true
				}
			}
		}
		// phis carrying the variable's name take part even without a debug reference
		for _, b := range fr.fn.Blocks {
			for _, in := range b.Instrs {
				ph, ok := in.(*ssa.Phi)
				if !ok {
					break
				}
				if ph.Comment == name {
					if _, has := st.vals[ph]; has {
						dup := false
						for _, v := range cands {
							if v == ph {
								dup = true
							}
						}
						if !dup {
							cands = append(cands, ph)
						}
					}
				}
			}
		}
		// (again, now that the phis known only by their name are among the candidates)
		if c.lc != nil {
			for _, v := range cands {
				if ph, ok := v.(*ssa.Phi); ok && ph.Block() == c.lc.l.Header {
					return tv{c.ex.val(st, v), v.Type()}, true
				}
			}
		}
		// several constants of one value are one value
		if k0, ok := cands[0].(*ssa.Const); ok && k0.Value != nil {
			same := true
			for _, v := range cands[1:] {
				k, isC := v.(*ssa.Const)
				if !isC || k.Value == nil || !constant.Compare(k.Value, token.EQL, k0.Value) {
					same = false
				}
			}
			if same {
				return tv{c.ex.val(st, cands[0]), cands[0].Type()}, true
			}
		}
		// a phi that merges (directly or through other phis) all the other candidates is the variable's value after
		// the merge; among several such phis the one that comes last in program order
		var covering []ssa.Value
		for _, v := range cands {
			ph, ok := v.(*ssa.Phi)
			if !ok {
				continue
			}
			reach := map[ssa.Value]bool{}
			var walk func(p *ssa.Phi)
			walk = func(p *ssa.Phi) {
				for _, e := range p.Edges {
					if reach[e] {
						continue
					}
					reach[e] = true
					if ep, ok := e.(*ssa.Phi); ok {
						walk(ep)
					}
				}
			}
			walk(ph)
			all := true
			for _, o := range cands {
				if o == v {
					continue
				}
				if _, isConst := o.(*ssa.Const); isConst {
					continue
				}
				if !reach[o] {
					all = false
				}
			}
			if all {
				covering = append(covering, v)
			}
		}
		if len(covering) == 1 {
			return tv{c.ex.val(st, covering[0]), covering[0].Type()}, true
		}
		if len(covering) > 1 {
			cands = covering
		}
		// otherwise the definition that comes last in program order among those already executed
		var best ssa.Value
		bestKey := [2]int{-1, -1}
		for _, v := range cands {
			in, ok := v.(ssa.Instruction)
			if !ok || in.Block() == nil {
				continue
			}
			pos := 0
			for i, x := range in.Block().Instrs {
				if x == in {
					pos = i
				}
			}
			k := [2]int{in.Block().Index, pos}
			if k[0] > bestKey[0] || (k[0] == bestKey[0] && k[1] > bestKey[1]) {
				best, bestKey = v, k
			}
		}
		if best != nil {
			return tv{c.ex.val(st, best), best.Type()}, true
		}
		var where []string
		for _, v := range cands {
			if in, ok := v.(ssa.Instruction); ok && in.Block() != nil {
				where = append(where, fmt.Sprintf("%s@block%d", v.Name(), in.Block().Index))
			} else {
				where = append(where, v.Name())
			}
		}
		hdr := -1
		if c.lc != nil {
			hdr = c.lc.l.Header.Index
		}
		c.errf("local name %s is ambiguous (%d SSA values: %s; loop header block %d); name a phi or use a ghost", name, len(cands), strings.Join(where, ", "), hdr)
	}
	// free variables of closures
	var freeNames []string
	if fc := c.ex.P.ContractFor(fr.fn); fc != nil && len(fc.FreeNames) == len(fr.fn.FreeVars) {
		freeNames = fc.FreeNames
	}
	for fi, fv := range fr.fn.FreeVars {
		if fv.Name() == name || (freeNames != nil && freeNames[fi] == name) {
			if val, ok := st.vals[fv]; ok {
				pt := fv.Type().Underlying().(*types.Pointer).Elem()
				return c.loadPtr(val, pt), true
			}
		}
	}
	// allocs by comment
	for _, b := range fr.fn.Blocks {
		for _, in := range b.Instrs {
			if a, ok := in.(*ssa.Alloc); ok && a.Comment == name {
				if val, ok := st.vals[a]; ok {
					return c.loadPtr(val, a.Type().(*types.Pointer).Elem()), true
				}
			}
		}
	}
	return tv{}, false
}

func (c *EvalCtx) loadPtr(v Val, pointee types.Type) tv {
	ex := c.ex
	if _, isNil := v.(nilMarker); isNil {
		c.errf("dereference of nil")
	}
	ptr := ex.asPtr(v, pointee)
	ex.noOblige++
	defer func() { ex.noOblige-- }()
	t := ex.load(c.st, ptr, pointee, "")
	return tv{ex.reifyPtr(t, pointee), pointee}
}

func (c *EvalCtx) selector(e *ast.SelectorExpr) tv {
	ex := c.ex
	// package-qualified?
	if id, ok := e.X.(*ast.Ident); ok {
		if id.Name == "caller" {
			if v, ok := c.vars["caller."+e.Sel.Name]; ok {
				return v
			}
		}
		if _, shadow := c.vars[id.Name]; !shadow {
			if imp := c.ex.resolveImport(c.pkgPath, id.Name); imp != nil {
				if obj := imp.Scope().Lookup(e.Sel.Name); obj != nil {
					return c.object(obj)
				}
				c.errf("package %s has no member %s", id.Name, e.Sel.Name)
			}
		}
	}
	x := c.eval(e.X)
	if x.t == nil {
		// spec value of datatype sort: field by name
		t := c.asTerm(x)
		if t.Sort.Kind == SData {
			for i, f := range t.Sort.Fields {
				if strings.HasSuffix(f.Name, "."+e.Sel.Name) {
					var ft types.Type
					if st, ok := ex.tm.structOf[t.Sort]; ok {
						ft = st.Field(i).Type()
					}
					return tv{ex.p.Acc(t, i), ft}
				}
			}
		}
		c.errf("cannot select %s from untyped value", e.Sel.Name)
	}
	return c.field(x, e.Sel.Name)
}

// resolveImport finds the package that the local name denotes in the source files of pkgPath
// (an explicit alias wins; otherwise the imported package's own name).
func (ex *Exec) resolveImport(pkgPath, local string) *types.Package {
	pp := ex.P.PPkg[pkgPath]
	if pp == nil {
		return nil
	}
	byPath := map[string]*types.Package{}
	for _, imp := range pp.Types.Imports() {
		byPath[imp.Path()] = imp
	}
	// an import under the package's own name wins over an alias of the same spelling in another file
	var plain, aliased *types.Package
	for _, f := range pp.Syntax {
		for _, im := range f.Imports {
			path, _ := strconv.Unquote(im.Path.Value)
			ip := byPath[path]
			if ip == nil {
				continue
			}
			if im.Name != nil {
				if im.Name.Name == local && aliased == nil {
					aliased = ip
				}
				continue
			}
			if ip.Name() == local {
				plain = ip
			}
		}
	}
	if plain != nil {
		return plain
	}
	return aliased
}

func (c *EvalCtx) importAlias(name string) string {
	pp := c.ex.P.PPkg[c.pkgPath]
	if pp == nil {
		return ""
	}
	for _, f := range pp.Syntax {
		for _, im := range f.Imports {
			if im.Name != nil && im.Name.Name == name {
				s, _ := strconv.Unquote(im.Path.Value)
				return s
			}
		}
	}
	return ""
}

func (c *EvalCtx) field(x tv, name string) tv {
	ex := c.ex
	obj, path, _ := types.LookupFieldOrMethod(x.t, true, c.pkgForLookup(x.t), name)
	fv, ok := obj.(*types.Var)
	if !ok || fv == nil {
		if fn, isFn := obj.(*types.Func); isFn {
			_ = fn
			c.errf("method value %s not allowed here (call it)", name)
		}
		c.errf("type %s has no field %s", x.t, name)
	}
	cur := x
	for _, idx := range path {
		t := cur.t
		if pt, ok := t.Underlying().(*types.Pointer); ok {
			// load through pointer
			sT := pt.Elem()
			str, _ := derefStruct(sT)
			base := ex.asPtr(c.ptrVal(cur), sT)
			np := &PtrV{Kind: base.Kind, Ref: base.Ref, Cell: base.Cell, Glob: base.Glob, Root: base.Root}
			np.Path = append(append([]Step(nil), base.Path...), Step{Kind: StepField, Field: idx, T: str.Field(idx).Type()})
			ft := str.Field(idx).Type()
			ex.noOblige++
			v := ex.load(c.st, np, ft, "")
			ex.noOblige--
			cur = tv{ex.reifyPtr(v, ft), ft}
			c.wfLoad(cur.v, ft)
			continue
		}
		str, ok := derefStruct(t)
		if !ok {
			c.errf("field access on non-struct %s", t)
		}
		cur = tv{ex.p.Acc(c.asTerm(cur), idx), str.Field(idx).Type()}
	}
	return cur
}

func (c *EvalCtx) ptrVal(x tv) Val {
	if _, isNil := x.v.(nilMarker); isNil {
		return c.ex.p.Int(0)
	}
	return x.v
}

func (c *EvalCtx) pkgForLookup(t types.Type) *types.Package {
	// unexported fields are visible from the defining package
	tt := t
	if pt, ok := tt.Underlying().(*types.Pointer); ok {
		tt = pt.Elem()
	}
	if n, ok := types.Unalias(tt).(*types.Named); ok && n.Obj().Pkg() != nil {
		return n.Obj().Pkg()
	}
	return c.pkg()
}

func (c *EvalCtx) index(x tv, i *Term) tv {
	ex := c.ex
	p := ex.p
	if x.t != nil {
		switch u := x.t.Underlying().(type) {
		case *types.Slice:
			s := c.asTerm(x)
			b := ex.sliceBacking(c.st, s, u.Elem())
			v := ex.elemAt(b, p.Acc(s, 1), i)
			c.wfLoad(v, u.Elem())
			return tv{v, u.Elem()}
		case *types.Array:
			return tv{p.Select(c.asTerm(x), i), u.Elem()}
		case *types.Pointer:
			if arr, ok := u.Elem().Underlying().(*types.Array); ok {
				a := c.loadPtr(x.v, u.Elem())
				return tv{p.Select(c.asTerm(a), i), arr.Elem()}
			}
		case *types.Map:
			m := c.asTerm(x)
			vn, _, vs, _ := ex.mapRegions(c.st, u)
			vr := ex.getRegion(c.st, vn, vs)
			return tv{p.Select(p.Select(vr, m), i), u.Elem()}
		}
	}
	t := c.asTerm(x)
	if t.Sort.Kind == SArray {
		return tv{p.Select(t, i), nil}
	}
	c.errf("cannot index value of sort %s", t.Sort)
	return tv{}
}

func (c *EvalCtx) composite(e *ast.CompositeLit) tv {
	// T{f: v, ...} for struct types only
	typ := c.typeExpr(e.Type)
	if typ == nil {
		c.errf("unknown type in composite literal")
	}
	str, ok := derefStruct(typ)
	if !ok {
		c.errf("composite literal of non-struct type")
	}
	cur := c.ex.tm.Zero(typ)
	for _, el := range e.Elts {
		kv, ok := el.(*ast.KeyValueExpr)
		if !ok {
			c.errf("composite literal needs field names")
		}
		name := kv.Key.(*ast.Ident).Name
		found := false
		for i := 0; i < str.NumFields(); i++ {
			if str.Field(i).Name() == name {
				cur = c.ex.p.With(cur, i, c.asTerm(c.eval(kv.Value)))
				found = true
			}
		}
		if !found {
			c.errf("no field %s", name)
		}
	}
	return tv{cur, typ}
}

// typeExpr resolves a type expression (identifier or pkg.Name, *T, []T) in the contract's package.
func (c *EvalCtx) typeExpr(e ast.Expr) types.Type {
	switch e := e.(type) {
	case *ast.Ident:
		if o := types.Universe.Lookup(e.Name); o != nil {
			if tn, ok := o.(*types.TypeName); ok {
				return tn.Type()
			}
		}
		if pk := c.pkg(); pk != nil {
			if o, ok := pk.Scope().Lookup(e.Name).(*types.TypeName); ok {
				return o.Type()
			}
		}
	case *ast.SelectorExpr:
		if id, ok := e.X.(*ast.Ident); ok {
			if imp := c.ex.resolveImport(c.pkgPath, id.Name); imp != nil {
				if o, ok := imp.Scope().Lookup(e.Sel.Name).(*types.TypeName); ok {
					return o.Type()
				}
			}
		}
	case *ast.StarExpr:
		if t := c.typeExpr(e.X); t != nil {
			return types.NewPointer(t)
		}
	case *ast.ArrayType:
		if t := c.typeExpr(e.Elt); t != nil {
			if e.Len == nil {
				return types.NewSlice(t)
			}
			if bl, ok := e.Len.(*ast.BasicLit); ok {
				if n, err := strconv.ParseInt(bl.Value, 10, 64); err == nil {
					return types.NewArray(t, n)
				}
			}
		}
	case *ast.ParenExpr:
		return c.typeExpr(e.X)
	}
	return nil
}

func (c *EvalCtx) call(e *ast.CallExpr) tv {
	ex := c.ex
	p := ex.p
	if id, ok := e.Fun.(*ast.Ident); ok {
		switch id.Name {
		case "old":
			if c.old == nil {
				c.errf("old() used where no pre-state exists")
			}
			return c.withState(c.old).eval(e.Args[0])
		case "forall", "exists":
			return c.quant(id.Name, e)
		case "ite":
			cond := c.asTerm(c.eval(e.Args[0]))
			a, b := c.eval(e.Args[1]), c.eval(e.Args[2])
			at, bt := c.asTerm(a), c.asTerm(b)
			t := a.t
			if t == nil {
				t = b.t
			}
			return tv{p.Ite(cond, at, bt), t}
		case "len":
			x := c.eval(e.Args[0])
			if x.t != nil {
				switch u := x.t.Underlying().(type) {
				case *types.Slice:
					return tv{p.Acc(c.asTerm(x), 2), nil}
				case *types.Array:
					return tv{p.Int(u.Len()), nil}
				case *types.Basic:
					return tv{ex.strlen(c.asTerm(x)), nil}
				}
			}
			t := c.asTerm(x)
			if t.Sort == ex.tm.SliceS {
				return tv{p.Acc(t, 2), nil}
			}
			if t.Sort == ex.tm.StrS {
				return tv{ex.strlen(t), nil}
			}
			c.errf("len of %s", t.Sort)
		case "cap":
			return tv{p.Acc(c.asTerm(c.eval(e.Args[0])), 3), nil}
		case "upd":
			// upd(m, i, v): the map / array m with position i set to v
			m := c.asTerm(c.eval(e.Args[0]))
			i := c.asTerm(c.eval(e.Args[1]))
			v := c.asTerm(c.eval(e.Args[2]))
			return tv{p.Store(m, i, v), nil}
		case "bytes1":
			// bytes1(x): the abstract byte string of the one-element slice []byte{x}
			x := c.asTerm(c.eval(e.Args[0]))
			arrS := p.ArraySort(IntSort, IntSort)
			arr := p.Store(p.ConstArray(arrS, p.Int(0)), p.Int(0), x)
			sf := ex.P.CS.Specs["bytesOf"]
			if sf == nil {
				c.errf("bytes1 needs the spec function bytesOf")
			}
			return tv{ex.specApp(sf, []*Term{arr, p.Int(1)}, c.pkgPath), nil}
		case "ab":
			return tv{ex.bytesOfAbstract(c.asTerm(c.eval(e.Args[0]))), nil}
		case "hashOf":
			a := c.asTerm(c.eval(e.Args[0]))
			g := p.Func("hashOf", []*Sort{p.ArraySort(IntSort, IntSort)}, ex.tm.HashS)
			return tv{p.App(g, a), nil}
		case "hb":
			return tv{ex.bytesOfAbstract(c.asTerm(c.eval(e.Args[0]))), nil}
		case "bitAt":
			// bitAt(x, h): bit h of x, usable with a symbolic position (uninterpreted, linked to the
			// per-bit Booleans of every closed fixed-width term it is applied to)
			x := c.eval(e.Args[0])
			h := c.asTerm(c.eval(e.Args[1]))
			xt := c.asTerm(x)
			if x.t != nil && !xt.hasBV {
				ex.linkBits(xt, x.t)
				if h.Op == "int" {
					if bs := ex.bitsOf(xt, x.t); bs != nil && int(h.Int.Int64()) < len(bs) && h.Int.Sign() >= 0 {
						return tv{bs[h.Int.Int64()], types.Typ[types.Bool]}
					}
				}
			}
			f := p.Func("bitAt", []*Sort{IntSort, IntSort}, BoolSort)
			return tv{p.App(f, xt, h), types.Typ[types.Bool]}
		case "bit":
			// bit(x, h): bit h of a fixed-width integer (h a literal)
			x := c.eval(e.Args[0])
			h := c.asTerm(c.eval(e.Args[1]))
			if x.t == nil || h.Op != "int" {
				c.errf("bit(x, h) needs a typed integer and a literal position")
			}
			bs := ex.bitsOf(c.asTerm(x), x.t)
			k := int(h.Int.Int64())
			if bs == nil || k >= len(bs) {
				c.errf("bit position out of range")
			}
			return tv{bs[k], types.Typ[types.Bool]}
		case "isZero":
			x := c.eval(e.Args[0])
			if x.t == nil {
				c.errf("isZero needs a typed value")
			}
			xt := c.asTerm(x)
			if _, isSlice := x.t.Underlying().(*types.Slice); isSlice {
				return tv{p.Eq(p.Acc(xt, 0), p.Int(0)), types.Typ[types.Bool]}
			}
			return tv{p.Eq(xt, ex.tm.Zero(x.t)), types.Typ[types.Bool]}
		case "backing":
			// backing(s): the whole backing array of slice s (indexed by absolute position: element i of s is at off(s)+i)
			x := c.eval(e.Args[0])
			u, ok := x.t.Underlying().(*types.Slice)
			if !ok {
				c.errf("backing of non-slice")
			}
			return tv{ex.sliceBacking(c.st, c.asTerm(x), u.Elem()), nil}
		case "off":
			return tv{p.Acc(c.asTerm(c.eval(e.Args[0])), 1), nil}
		case "ref":
			return tv{p.Acc(c.asTerm(c.eval(e.Args[0])), 0), nil}
		case "real":
			return tv{p.ToReal(c.asTerm(c.eval(e.Args[0]))), nil}
		case "floor":
			return tv{p.ToInt(c.asTerm(c.eval(e.Args[0]))), nil}
		case "seq":
			// seq(s): the elements of slice s as an array indexed from 0
			x := c.eval(e.Args[0])
			u, ok := x.t.Underlying().(*types.Slice)
			if !ok {
				c.errf("seq of non-slice")
			}
			return tv{ex.sliceSeq(c.st, c.asTerm(x), u.Elem()), nil}
		case "fresh":
			// fresh(p): p was allocated by this call
			x := c.asTerm(c.eval(e.Args[0]))
			if c.old == nil {
				c.errf("fresh() needs a pre-state")
			}
			return tv{p.Ge(x, c.old.heapTop), types.Typ[types.Bool]}
		case "implies":
			return tv{p.Implies(c.asTerm(c.eval(e.Args[0])), c.asTerm(c.eval(e.Args[1]))), types.Typ[types.Bool]}
		case "errvar":
			// errvar("pkg.Var"): a package-level error variable named without importing its package
			if lit, ok := e.Args[0].(*ast.BasicLit); ok && lit.Kind == token.STRING {
				if name, err := strconv.Unquote(lit.Value); err == nil {
					return tv{ex.sentinelByName(name), types.Universe.Lookup("error").Type()}
				}
			}
			c.errf("errvar: string literal expected")
		case "has":
			// has(m, k): the map m holds an entry for key k
			mv := c.eval(e.Args[0])
			mt, ok := mv.t.Underlying().(*types.Map)
			if !ok {
				c.errf("has: not a map")
			}
			m := c.asTerm(mv)
			_, hn, _, hs := ex.mapRegions(c.st, mt)
			hr := ex.getRegion(c.st, hn, hs)
			return tv{p.And(p.Not(p.Eq(m, p.Int(0))), p.Select(p.Select(hr, m), c.asTerm(c.eval(e.Args[1])))), types.Typ[types.Bool]}
		case "nsent", "sentAt", "nrecv":
			// the ghost log of a channel: nsent(ch) values have been sent on it so far, sentAt(ch, i) is the i-th of them
			chv := c.eval(e.Args[0])
			cht, ok := chv.t.Underlying().(*types.Chan)
			if !ok {
				c.errf("%s: not a channel", id.Name)
			}
			el := cht.Elem()
			base := "chan:" + shortTypeName(el)
			ch := c.asTerm(chv)
			if id.Name == "nsent" || id.Name == "nrecv" {
				// (nrecv(ch): how many values this code has received from ch so far)
				nr := ex.getRegion(c.st, base+"."+id.Name, p.ArraySort(IntSort, IntSort))
				n := p.Select(nr, ch)
				if c.wf != nil {
					c.wf.facts = append(c.wf.facts, p.Ge(n, p.Int(0)))
				}
				return tv{n, types.Typ[types.Int]}
			}
			sr := ex.getRegion(c.st, base+".sent", p.ArraySort(IntSort, p.ArraySort(IntSort, ex.tm.SortOf(el))))
			return tv{p.Select(p.Select(sr, ch), c.asTerm(c.eval(e.Args[1]))), el}
		case "isErr":
			return tv{ex.isErr(c.asTerm(c.eval(e.Args[0])), c.asTerm(c.eval(e.Args[1]))), types.Typ[types.Bool]}
		case "cast":
			// cast(x, T): the value of interface x viewed as the (pointer) type T; meaningful where typeIs(x, T) holds
			x := c.asTerm(c.eval(e.Args[0]))
			t := c.typeExpr(e.Args[1])
			if t == nil {
				c.errf("cast: unknown type")
			}
			if _, ok := t.Underlying().(*types.Pointer); !ok {
				c.errf("cast: only pointer types")
			}
			if c.wf != nil {
				c.wf.facts = append(c.wf.facts, p.Implies(p.Eq(ex.dynType(x), ex.typeID(t)), p.Lt(x, c.st.heapTop)))
			}
			return tv{ex.reifyPtr(x, t), t}
		case "unbox":
			// unbox(x, T): the value held by interface x, viewed as the non-pointer type T (meaningful where typeIs(x, T))
			x := c.asTerm(c.eval(e.Args[0]))
			t := c.typeExpr(e.Args[1])
			if t == nil {
				c.errf("unbox: unknown type")
			}
			if bi, isBox := ex.boxes[x]; isBox && types.Identical(bi.t, t) {
				return tv{bi.v, t}
			}
			f := p.Func("unbox:"+shortTypeName(t), []*Sort{IntSort}, ex.tm.SortOf(t))
			return tv{p.App(f, x), t}
		case "typeIs":
			// typeIs(x, T): dynamic type of interface value x is T
			x := c.asTerm(c.eval(e.Args[0]))
			t := c.typeExpr(e.Args[1])
			if t == nil {
				c.errf("typeIs: unknown type")
			}
			if _, seen := ex.dynHints[x]; !seen {
				ex.dynHints[x] = t
			}
			return tv{p.And(p.Not(p.Eq(x, p.Int(0))), p.Eq(ex.dynType(x), ex.typeID(t))), types.Typ[types.Bool]}
		}
		if gf, ok := ex.P.CS.GhostFields[id.Name]; ok && len(e.Args) == 1 {
			x := c.asTerm(c.eval(e.Args[0]))
			r := ex.getRegion(c.st, "gf:"+gf.Name, p.ArraySort(IntSort, ex.specSort(gf.Sort, c.pkgPath)))
			return tv{p.Select(r, x), nil}
		}
		if sf, ok := ex.P.CS.Specs[id.Name]; ok {
			var args []*Term
			for i, a := range e.Args {
				av := c.eval(a)
				at := c.asTerm(av)
				args = append(args, at)
				if i < len(sf.Params) && !at.hasBV {
					if gt := ex.specGoType(sf.Params[i].Type, specPkg(sf, c.pkgPath)); gt != nil {
						if _, isInt := basicInt(gt); isInt && strings.HasPrefix(sf.Params[i].Type, "uint") && sf.Params[i].Type != "uint" {
							ex.linkBits(at, gt)
						}
					}
				}
			}
			return tv{ex.specApp(sf, args, c.pkgPath), c.specRetType(sf)}
		}
		// conversion T(x)?
		if t := c.typeExpr(e.Fun); t != nil && len(e.Args) == 1 {
			return c.conversion(t, c.eval(e.Args[0]))
		}
		// Go function of the package, executed symbolically (must be side-effect free)
		if pk := c.pkg(); pk != nil {
			if fo, ok := pk.Scope().Lookup(id.Name).(*types.Func); ok {
				fn := ex.P.SSA.FuncValue(fo)
				return c.goCall(fn, nil, e.Args)
			}
		}
		c.errf("unknown function %s", id.Name)
	}
	if sel, ok := e.Fun.(*ast.SelectorExpr); ok {
		// conversion pkg.T(x)
		if t := c.typeExpr(e.Fun); t != nil && len(e.Args) == 1 {
			return c.conversion(t, c.eval(e.Args[0]))
		}
		// pkg.Func(...)
		if id, ok := sel.X.(*ast.Ident); ok {
			if _, shadow := c.vars[id.Name]; !shadow {
				if imp := ex.resolveImport(c.pkgPath, id.Name); imp != nil {
					if fo, ok := imp.Scope().Lookup(sel.Sel.Name).(*types.Func); ok {
						return c.goCall(ex.P.SSA.FuncValue(fo), nil, e.Args)
					}
				}
			}
		}
		// method call x.M(args)
		x := c.eval(sel.X)
		if x.t == nil {
			c.errf("method call on untyped value")
		}
		obj, _, _ := types.LookupFieldOrMethod(x.t, true, c.pkgForLookup(x.t), sel.Sel.Name)
		fo, ok := obj.(*types.Func)
		if !ok {
			c.errf("no method %s on %s", sel.Sel.Name, x.t)
		}
		if _, isIface := x.t.Underlying().(*types.Interface); isIface {
			c.errf("interface method calls are not allowed in contracts")
		}
		fn := ex.P.SSA.FuncValue(fo)
		return c.goCall(fn, &x, e.Args)
	}
	c.errf("unsupported call form")
	return tv{}
}

func (c *EvalCtx) specRetType(sf *SpecFn) types.Type {
	return c.ex.specGoType(sf.Ret, c.pkgPath)
}

// goCall executes a real Go function symbolically inside a contract (no obligations, effects discarded).
func (c *EvalCtx) goCall(fn *ssa.Function, recv *tv, argExprs []ast.Expr) tv {
	ex := c.ex
	if fn == nil {
		c.errf("function has no SSA body")
	}
	var args []Val
	if recv != nil {
		rv := recv.v
		// adjust receiver: method expects pointer or value
		want := fn.Signature.Recv().Type()
		_, wantPtr := want.Underlying().(*types.Pointer)
		_, havePtr := recv.t.Underlying().(*types.Pointer)
		switch {
		case wantPtr == havePtr:
		case !wantPtr && havePtr:
			rv = c.loadPtr(recv.v, recv.t.Underlying().(*types.Pointer).Elem()).v
		default:
			c.errf("method %s needs an addressable receiver", fn.Name())
		}
		if _, isNil := rv.(nilMarker); isNil {
			rv = ex.p.Int(0)
		}
		args = append(args, rv)
	}
	for _, a := range argExprs {
		v := c.eval(a)
		if _, isNil := v.v.(nilMarker); isNil {
			v.v = ex.p.Int(0)
		}
		args = append(args, v.v)
	}
	if ct := ex.P.ContractFor(fn); ct != nil && ct.Pure {
		return tv{ex.pureResult(c.st, ex.fnName(fn), fn.Signature, args), resultType(fn.Signature)}
	}
	if fn.Blocks == nil {
		c.errf("function %s has no body to evaluate", fn)
	}
	if ex.specDepth > 4 {
		c.errf("spec call depth exceeded")
	}
	ex.specDepth++
	ex.noOblige++
	savedFrame := ex.frameOn
	ex.frameOn = false
	tmp := c.st.fork()
	tmp.defers = nil
	res := ex.inlineCall(tmp, fn, args, nil, "")
	ex.frameOn = savedFrame
	ex.noOblige--
	ex.specDepth--
	return tv{res, resultType(fn.Signature)}
}

func resultType(sig *types.Signature) types.Type {
	if sig.Results().Len() == 1 {
		return sig.Results().At(0).Type()
	}
	return nil
}

func (c *EvalCtx) conversion(t types.Type, x tv) tv {
	ex := c.ex
	xt := c.asTerm(x)
	if _, ok := basicInt(t); ok && xt.Sort.Kind == SInt {
		return tv{ex.tm.Wrap(xt, t), t}
	}
	if b, ok := t.Underlying().(*types.Basic); ok && b.Info()&types.IsFloat != 0 && xt.Sort.Kind == SInt {
		return tv{ex.p.ToReal(xt), t}
	}
	if ex.tm.SortOf(t).String() == xt.Sort.String() {
		return tv{xt, t}
	}
	c.errf("unsupported conversion to %s", t)
	return tv{}
}

func (c *EvalCtx) quant(kind string, e *ast.CallExpr) tv {
	p := c.ex.p
	// forall(i, lo, hi, body)  |  forall(i, T, body) with T a spec sort name
	id, ok := e.Args[0].(*ast.Ident)
	if !ok {
		c.errf("%s: first argument must be a variable name", kind)
	}
	switch len(e.Args) {
	case 4:
		lo := c.asTerm(c.eval(e.Args[1]))
		hi := c.asTerm(c.eval(e.Args[2]))
		if os.Getenv("GOVC_NOEXPAND") == "" && lo.Op == "int" && hi.Op == "int" && lo.Int.IsInt64() && hi.Int.IsInt64() && hi.Int.Int64()-lo.Int.Int64() <= 64 {
			// literal range: expand into the finite conjunction / disjunction (ground, no quantifier)
			var parts []*Term
			for i := lo.Int.Int64(); i < hi.Int.Int64(); i++ {
				parts = append(parts, c.asTerm(c.bind(id.Name, tv{p.Int(i), nil}).eval(e.Args[3])))
			}
			if kind == "forall" {
				return tv{p.And(parts...), types.Typ[types.Bool]}
			}
			return tv{p.Or(parts...), types.Typ[types.Bool]}
		}
		bv := p.BoundVar(id.Name, IntSort)
		bc := c.bind(id.Name, tv{bv, nil})
		if c.wf != nil {
			bc.wf = &wfCollector{}
		}
		body := c.asTerm(bc.eval(e.Args[3]))
		rng := p.And(p.Le(lo, bv), p.Lt(bv, hi))
		if c.wf != nil {
			for _, f := range bc.wf.facts {
				if !termMentions(f, bv, map[*Term]bool{}) {
					c.wf.facts = append(c.wf.facts, f)
				} else if kind == "forall" {
					body = p.And(body, f)
				}
			}
		}
		if kind == "forall" {
			return tv{p.Forall([]*Term{bv}, p.Implies(rng, body)), types.Typ[types.Bool]}
		}
		return tv{p.Exists([]*Term{bv}, p.And(rng, body)), types.Typ[types.Bool]}
	case 3:
		var sname string
		switch t := e.Args[1].(type) {
		case *ast.Ident:
			sname = t.Name
		default:
			sname = types.ExprString(e.Args[1])
		}
		s := c.ex.specSort(sname, c.pkgPath)
		bv := p.BoundVar(id.Name, s)
		body := c.asTerm(c.bind(id.Name, tv{bv, c.ex.specGoType(sname, c.pkgPath)}).eval(e.Args[2]))
		if kind == "forall" {
			return tv{p.Forall([]*Term{bv}, body), types.Typ[types.Bool]}
		}
		return tv{p.Exists([]*Term{bv}, body), types.Typ[types.Bool]}
	}
	c.errf("%s needs (var, lo, hi, body) or (var, sort, body)", kind)
	return tv{}
}

// ------------------------------------------------------------------ spec functions and sorts

func (ex *Exec) specSort(name, pkgPath string) *Sort {
	name = strings.TrimSpace(name)
	switch name {
	case "int", "uint64", "uint32", "uint", "int64", "uint8", "byte":
		return IntSort
	case "bool":
		return BoolSort
	case "real", "float64":
		return RealSort
	case "Hash":
		return ex.tm.HashS
	case "Addr":
		return ex.tm.AddrS
	case "Bytes":
		return ex.tm.BytesS
	case "Str", "string":
		return ex.tm.StrS
	case "Slice":
		return ex.tm.SliceS
	}
	if strings.HasPrefix(name, "[]") {
		return ex.p.ArraySort(IntSort, ex.specSort(name[2:], pkgPath))
	}
	if strings.HasPrefix(name, "map[") {
		j := strings.Index(name, "]")
		return ex.p.ArraySort(ex.specSort(name[4:j], pkgPath), ex.specSort(name[j+1:], pkgPath))
	}
	if strings.HasPrefix(name, "[") {
		j := strings.Index(name, "]")
		return ex.p.ArraySort(IntSort, ex.specSort(name[j+1:], pkgPath))
	}
	if strings.HasPrefix(name, "*") {
		return IntSort
	}
	if t := ex.specGoType(name, pkgPath); t != nil {
		return ex.tm.SortOf(t)
	}
	panic(execPanic{"unknown spec sort " + name})
}

func (ex *Exec) specGoType(name, pkgPath string) types.Type {
	name = strings.TrimSpace(name)
	ptr := false
	if strings.HasPrefix(name, "*") {
		ptr = true
		name = name[1:]
	}
	var t types.Type
	if o := types.Universe.Lookup(name); o != nil {
		if tn, ok := o.(*types.TypeName); ok {
			t = tn.Type()
		}
	}
	if t == nil {
		pp := ex.P.PPkg[pkgPath]
		if pp != nil {
			if i := strings.Index(name, "."); i >= 0 {
				if imp := ex.resolveImport(pkgPath, name[:i]); imp != nil {
					if o, ok := imp.Scope().Lookup(name[i+1:]).(*types.TypeName); ok {
						t = o.Type()
					}
				}
			} else if o, ok := pp.Types.Scope().Lookup(name).(*types.TypeName); ok {
				t = o.Type()
			}
		}
	}
	if t == nil {
		return nil
	}
	if ptr {
		return types.NewPointer(t)
	}
	return t
}

// ghostGoType: the Go type behind a ghost variable, so that its elements can be used like Go values in clauses. A ghost
// sequence `[]T` or map `map[K]V` is an SMT array; it is given the synthetic type [0]T / [0]V, which indexes by plain
// array selection and carries the element type (nil when the element is not a Go type, e.g. Hash).
func (ex *Exec) ghostGoType(name, pkgPath string) types.Type {
	name = strings.TrimSpace(name)
	if strings.HasPrefix(name, "[]") {
		if el := ex.ghostGoType(name[2:], pkgPath); el != nil {
			return types.NewArray(el, 0)
		}
		return nil
	}
	if strings.HasPrefix(name, "map[") {
		depth := 0
		for i := 3; i < len(name); i++ {
			switch name[i] {
			case '[':
				depth++
			case ']':
				depth--
				if depth == 0 {
					if el := ex.ghostGoType(name[i+1:], pkgPath); el != nil {
						return types.NewArray(el, 0)
					}
					return nil
				}
			}
		}
		return nil
	}
	return ex.specGoType(name, pkgPath)
}

// specApp applies a spec function, declaring/defining it on first use.
func (ex *Exec) specApp(sf *SpecFn, args []*Term, pkgPath string) *Term {
	p := ex.p
	d := ex.specDecls[sf.Name]
	if d == nil {
		var ps []*Sort
		for _, sp := range sf.Params {
			ps = append(ps, ex.specSort(sp.Type, specPkg(sf, pkgPath)))
		}
		ret := ex.specSort(sf.Ret, specPkg(sf, pkgPath))
		d = p.Func("spec:"+sf.Name, ps, ret)
		ex.specDecls[sf.Name] = d
		if sf.Body != nil {
			d.Rec = strings.Contains(sf.BodyTxt, sf.Name+"(")
			vars := map[string]tv{}
			for i, sp := range sf.Params {
				bv := p.BoundVar(sp.Name, ps[i])
				d.DefParams = append(d.DefParams, bv)
				vars[sp.Name] = tv{bv, ex.specGoType(sp.Type, specPkg(sf, pkgPath))}
			}
			// body must not depend on program state
			ctx := &EvalCtx{ex: ex, st: ex.emptyState(), vars: vars, pkgPath: specPkg(sf, pkgPath),
				clause: &Clause{Text: sf.BodyTxt, File: sf.File, Line: sf.Line}}
			body := ctx.asTerm(ctx.eval(sf.Body))
			if body.Sort.String() != ret.String() {
				panic(execPanic{fmt.Sprintf("spec fn %s: body sort %s, declared %s", sf.Name, body.Sort, ret)})
			}
			d.DefBody = body
		}
	}
	if len(args) != len(d.Params) {
		panic(execPanic{fmt.Sprintf("spec fn %s: %d args, want %d", sf.Name, len(args), len(d.Params))})
	}
	if d.Rec && d.DefBody != nil {
		closed := true
		lit := false
		for _, a := range args {
			if a.hasBV {
				closed = false
			}
			if a.Op == "int" {
				lit = true
			}
		}
		if closed && lit && ex.noExpand == 0 {
			if t := ex.expandSpec(d, args, 0); t != nil {
				return t
			}
		}
	}
	return p.App(d, args...)
}

// expandSpec unfolds a recursive spec function applied to literal integer arguments (computation by unfolding):
// foldUp(l, p, i, 32) becomes the 32-level nested term, shared through hash-consing. Returns nil if the
// unfolding does not terminate within the depth limit.
func (ex *Exec) expandSpec(d *FuncDecl, args []*Term, depth int) *Term {
	if depth > 300 {
		return nil
	}
	key := d.Name
	for _, a := range args {
		key += fmt.Sprintf(",%d", a.id)
	}
	if t, ok := ex.expandMemo[key]; ok {
		return t
	}
	p := ex.p
	m := map[*Term]*Term{}
	for i, bv := range d.DefParams {
		m[bv] = args[i]
	}
	body := p.Subst(d.DefBody, m)
	// expand remaining recursive applications with literal arguments
	failed := false
	memo := map[*Term]*Term{}
	var rec func(t *Term) *Term
	rec = func(t *Term) *Term {
		if failed || len(t.Args) == 0 {
			return t
		}
		if r, ok := memo[t]; ok {
			return r
		}
		nargs := make([]*Term, len(t.Args))
		ch := false
		for i, a := range t.Args {
			nargs[i] = rec(a)
			if nargs[i] != a {
				ch = true
			}
		}
		r := t
		if ch {
			r = p.rebuild(t, nargs)
		}
		if r.Op == "app" && r.Fn == d && !r.hasBV {
			lit := false
			same := true
			for i, a := range r.Args {
				if a.Op == "int" {
					lit = true
				}
				if a != args[i] {
					same = false
				}
			}
			if lit && !same {
				if e := ex.expandSpec(d, r.Args, depth+1); e != nil {
					r = e
				} else {
					failed = true
				}
			} else if same {
				failed = true // no progress
			}
		}
		memo[t] = r
		return r
	}
	res := rec(body)
	if failed {
		ex.expandMemo[key] = nil
		return nil
	}
	ex.expandMemo[key] = res
	return res
}

func specPkg(sf *SpecFn, fallback string) string {
	if sf.PkgPath != "" {
		return sf.PkgPath
	}
	return fallback
}

func (ex *Exec) emptyState() *State {
	return &State{pc: ex.p.True(), vals: map[ssa.Value]Val{}, cells: map[string]*Term{}, cellT: map[string]types.Type{},
		heap: map[string]*Term{}, ghost: map[string]*Term{}, heapTop: ex.p.Const("heapTop@0", IntSort)}
}

// isErr(e, S): errors.Is
func (ex *Exec) isErr(e, s *Term) *Term {
	p := ex.p
	f := p.Func("isErr", []*Sort{IntSort, IntSort}, BoolSort)
	if e == s {
		return p.Not(p.Eq(e, p.Int(0)))
	}
	if e.Op == "int" && e.Int.Sign() == 0 {
		return p.False()
	}
	if e.Op == "const" && strings.HasPrefix(e.Name, "err:") {
		// a package-level sentinel (errors.New / fmt.Errorf without %w, assumed) wraps nothing: it answers to itself only
		ex.assumptions["package-level error sentinels wrap nothing (errors.Is(sentinel, x) holds for x == sentinel only)"] = true
		return p.And(p.Not(p.Eq(e, p.Int(0))), p.Eq(e, s))
	}
	r := p.App(f, e, s)
	k := fmt.Sprintf("isErr-axioms:%d:%d", e.id, s.id)
	// (inside the body of a defined spec function the operands are bound variables: the instance facts are added where
	// the function is applied to real terms, not here)
	if !ex.assumptions[k] && !hasBound(e) && !hasBound(s) {
		ex.facts = append(ex.facts, p.Implies(p.Eq(e, p.Int(0)), p.Not(r)), p.Implies(p.And(p.Eq(e, s), p.Not(p.Eq(e, p.Int(0)))), r))
	}
	return r
}

// ------------------------------------------------------------------ modifies targets

func (c *EvalCtx) modTargets(e ast.Expr) []modEntry {
	ex := c.ex
	switch e := e.(type) {
	case *ast.ParenExpr:
		return c.modTargets(e.X)
	case *ast.Ident:
		if _, ok := ex.P.CS.Ghosts[e.Name]; ok {
			return []modEntry{{region: "ghost:" + e.Name}}
		}
		if e.Name == "heap" {
			return []modEntry{{region: "*"}}
		}
	case *ast.StarExpr:
		x := c.eval(e.X)
		pt, ok := x.t.Underlying().(*types.Pointer)
		if !ok {
			c.errf("modifies *x: x is not a pointer")
		}
		ref := c.asTerm(x)
		if sT, ok := derefStruct(pt.Elem()); ok && !isHashType(pt.Elem()) {
			var out []modEntry
			for i := 0; i < sT.NumFields(); i++ {
				name := fieldRegion(pt.Elem(), sT, i)
				ex.getRegion(c.st, name, ex.p.ArraySort(IntSort, ex.tm.SortOf(sT.Field(i).Type())))
				out = append(out, modEntry{name, ref})
			}
			return out
		}
		name := "*" + shortTypeName(pt.Elem())
		ex.getRegion(c.st, name, ex.p.ArraySort(IntSort, ex.tm.SortOf(pt.Elem())))
		return []modEntry{{name, ref}}
	case *ast.SelectorExpr:
		x := c.eval(e.X)
		if x.t == nil {
			c.errf("modifies: untyped base")
		}
		pt, ok := x.t.Underlying().(*types.Pointer)
		if !ok {
			c.errf("modifies x.f: x is not a pointer")
		}
		obj, path, _ := types.LookupFieldOrMethod(x.t, true, c.pkgForLookup(x.t), e.Sel.Name)
		if _, ok := obj.(*types.Var); !ok || len(path) != 1 {
			c.errf("modifies: %s is not a direct field", e.Sel.Name)
		}
		sT, _ := derefStruct(pt.Elem())
		name := fieldRegion(pt.Elem(), sT, path[0])
		ex.getRegion(c.st, name, ex.p.ArraySort(IntSort, ex.tm.SortOf(sT.Field(path[0]).Type())))
		return []modEntry{{name, c.asTerm(x)}}
	case *ast.CallExpr:
		if id, ok := e.Fun.(*ast.Ident); ok {
			if gf, ok := ex.P.CS.GhostFields[id.Name]; ok && len(e.Args) == 1 {
				x := c.asTerm(c.eval(e.Args[0]))
				ex.getRegion(c.st, "gf:"+gf.Name, ex.p.ArraySort(IntSort, ex.specSort(gf.Sort, c.pkgPath)))
				return []modEntry{{"gf:" + gf.Name, x}}
			}
			switch id.Name {
			case "elems":
				x := c.eval(e.Args[0])
				u, ok := x.t.Underlying().(*types.Slice)
				if !ok {
					c.errf("elems of non-slice")
				}
				name := "[]" + shortTypeName(u.Elem())
				ex.getRegion(c.st, name, ex.p.ArraySort(IntSort, ex.p.ArraySort(IntSort, ex.tm.SortOf(u.Elem()))))
				return []modEntry{{name, ex.p.Acc(c.asTerm(x), 0)}}
			case "region":
				s, _ := strconv.Unquote(e.Args[0].(*ast.BasicLit).Value)
				return []modEntry{{region: s}}
			}
		}
	}
	c.errf("unsupported modifies target")
	return nil
}

// staticRegions: region names of a modifies entry from types only (used by the loop-frame scan).
func (ex *Exec) staticRegions(c *FuncContract, m *Clause) []string {
	return ex.staticRegionsSig(c, m, nil, nil)
}

// staticRegionsSig determines the region names of a modifies entry from types only: names[i] : ptypes[i] are the
// callee's parameters. Returns nil when the entry cannot be resolved (the caller then forgets everything).
func (ex *Exec) staticRegionsSig(c *FuncContract, m *Clause, names []string, ptypes []types.Type) []string {
	typeOfIdent := func(n string) types.Type {
		for i, nm := range names {
			if nm == n && i < len(ptypes) {
				return ptypes[i]
			}
		}
		if n == "self" && len(ptypes) > 0 {
			return ptypes[0]
		}
		return nil
	}
	var typeOf func(e ast.Expr) types.Type
	typeOf = func(e ast.Expr) types.Type {
		switch e := e.(type) {
		case *ast.ParenExpr:
			return typeOf(e.X)
		case *ast.Ident:
			return typeOfIdent(e.Name)
		case *ast.SelectorExpr:
			if id, ok := e.X.(*ast.Ident); ok && id.Name == "caller" {
				return typeOfIdent("caller." + e.Sel.Name)
			}
			xt := typeOf(e.X)
			if xt == nil {
				return nil
			}
			var pk *types.Package
			tt := xt
			if pt, ok := tt.Underlying().(*types.Pointer); ok {
				tt = pt.Elem()
			}
			if n, ok := types.Unalias(tt).(*types.Named); ok {
				pk = n.Obj().Pkg()
			}
			obj, _, _ := types.LookupFieldOrMethod(xt, true, pk, e.Sel.Name)
			if v, ok := obj.(*types.Var); ok {
				return v.Type()
			}
		}
		return nil
	}
	switch e := m.Expr.(type) {
	case *ast.Ident:
		if _, ok := ex.P.CS.Ghosts[e.Name]; ok {
			return []string{"ghost:" + e.Name}
		}
	case *ast.StarExpr:
		if xt := typeOf(e.X); xt != nil {
			if pt, ok := xt.Underlying().(*types.Pointer); ok {
				ex.hintStructRegions(pt.Elem())
				return structFieldRegions(pt.Elem())
			}
		}
	case *ast.SelectorExpr:
		if xt := typeOf(e.X); xt != nil {
			if pt, ok := xt.Underlying().(*types.Pointer); ok {
				if sT, ok := derefStruct(pt.Elem()); ok {
					ex.hintStructRegions(pt.Elem())
					for i := 0; i < sT.NumFields(); i++ {
						if sT.Field(i).Name() == e.Sel.Name {
							return []string{fieldRegion(pt.Elem(), sT, i)}
						}
					}
				}
			}
		}
	case *ast.CallExpr:
		if id, ok := e.Fun.(*ast.Ident); ok {
			if gf, isGF := ex.P.CS.GhostFields[id.Name]; isGF {
				if _, known := ex.regionSorts["gf:"+id.Name]; !known {
					ex.regionSorts["gf:"+id.Name] = ex.p.ArraySort(IntSort, ex.specSort(gf.Sort, c.PkgPath))
				}
				return []string{"gf:" + id.Name}
			}
			switch id.Name {
			case "region":
				s, _ := strconv.Unquote(e.Args[0].(*ast.BasicLit).Value)
				if _, known := ex.regionSorts[s]; !known && strings.HasPrefix(s, "chan:") {
					tn := strings.TrimSuffix(strings.TrimSuffix(strings.TrimSuffix(strings.TrimPrefix(s, "chan:"), ".nsent"), ".nrecv"), ".sent")
					if i := strings.Index(tn, "."); i >= 0 && c.PkgPath != "" && strings.HasSuffix(c.PkgPath, "/"+tn[:i]) {
						tn = tn[i+1:]
					}
					if el := ex.specGoType(tn, c.PkgPath); el != nil {
						ex.hintChanRegions(el)
					}
				}
				if _, known := ex.regionSorts[s]; !known && !strings.HasPrefix(s, "chan:") && strings.Count(s, ".") == 2 {
					// "pkg.Type.field"
					tn := s[:strings.LastIndex(s, ".")]
					short := tn[strings.Index(tn, ".")+1:]
					for _, cand := range []string{short, tn} {
						func() {
							defer func() { recover() }()
							if el := ex.specGoType(cand, c.PkgPath); el != nil {
								ex.hintStructRegions(el)
							}
						}()
					}
				}
				return []string{s}
			case "elems":
				if xt := typeOf(e.Args[0]); xt != nil {
					if sl, ok := xt.Underlying().(*types.Slice); ok {
						name := "[]" + shortTypeName(sl.Elem())
						if _, known := ex.regionSorts[name]; !known {
							ex.regionSorts[name] = ex.p.ArraySort(IntSort, ex.p.ArraySort(IntSort, ex.tm.SortOf(sl.Elem())))
						}
						return []string{name}
					}
				}
			}
		}
	}
	return nil
}

// hintStructRegions records the sorts of the field regions of a struct type (so that a loop frame can forget them
// even if the execution has not touched them yet).
func (ex *Exec) hintStructRegions(t types.Type) {
	if sT, ok := derefStruct(t); ok && !isHashType(t) && !isAddrType(t) {
		for i := 0; i < sT.NumFields(); i++ {
			name := fieldRegion(t, sT, i)
			if _, known := ex.regionSorts[name]; !known {
				ex.regionSorts[name] = ex.p.ArraySort(IntSort, ex.tm.SortOf(sT.Field(i).Type()))
			}
		}
		return
	}
	name := "*" + shortTypeName(t)
	if _, known := ex.regionSorts[name]; !known {
		ex.regionSorts[name] = ex.p.ArraySort(IntSort, ex.tm.SortOf(t))
	}
}

// hasBound: the term mentions a bound variable.
func hasBound(t *Term) bool {
	if t.Op == "bound" {
		return true
	}
	for _, a := range t.Args {
		if hasBound(a) {
			return true
		}
	}
	return false
}
