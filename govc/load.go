package main

// Loading /repo packages, building SSA, loop analysis.

import (
	"fmt"
	"go/ast"
	"go/token"
	"go/types"
	"os"
	"path/filepath"
	"sort"
	"strings"
	"sync"

	"golang.org/x/tools/go/packages"
	"golang.org/x/tools/go/ssa"
	"golang.org/x/tools/go/ssa/ssautil"
)

type Program struct {
	RepoDir string
	Pkgs    []*packages.Package
	SSA     *ssa.Program
	ByPath  map[string]*ssa.Package
	PPkg    map[string]*packages.Package
	Fset    *token.FileSet
	CS      *ContractSet
	fnIndex map[string]*ssa.Function // pkgpath + "." + RelString
	loops   map[*ssa.Function][]*Loop
	mu      sync.Mutex
}

const modPrefix = "github.com/agglayer/aggkit"

func LoadProgram(repoDir string, patterns []string, contractsDir string) (*Program, error) {
	cfg := &packages.Config{
		Mode:       packages.LoadSyntax | packages.NeedModule,
		Dir:        repoDir,
		BuildFlags: []string{"-tags=verif"},
		Env:        append(os.Environ(), "GOFLAGS=-mod=mod", "GOPROXY=off"),
	}
	// phase 1: import closure of the requested packages inside the module (their bodies are needed for inlining)
	cfg0 := &packages.Config{Mode: packages.NeedName | packages.NeedImports | packages.NeedDeps, Dir: repoDir,
		BuildFlags: cfg.BuildFlags, Env: cfg.Env}
	roots, err := packages.Load(cfg0, patterns...)
	if err != nil {
		return nil, err
	}
	closure := map[string]bool{}
	var walk func(p *packages.Package)
	walk = func(p *packages.Package) {
		if closure[p.PkgPath] || !strings.HasPrefix(p.PkgPath, modPrefix) {
			return
		}
		closure[p.PkgPath] = true
		for _, q := range p.Imports {
			walk(q)
		}
	}
	for _, r := range roots {
		walk(r)
	}
	var all []string
	for k := range closure {
		all = append(all, k)
	}
	sort.Strings(all)
	pkgs, err := packages.Load(cfg, all...)
	if err != nil {
		return nil, err
	}
	var errs []string
	for _, p := range pkgs {
		for _, e := range p.Errors {
			errs = append(errs, e.Error())
		}
	}
	if len(errs) > 0 {
		return nil, fmt.Errorf("load errors: %s", strings.Join(errs, "; "))
	}
	prog, spkgs := ssautil.Packages(pkgs, ssa.InstantiateGenerics|ssa.GlobalDebug)
	P := &Program{RepoDir: repoDir, Pkgs: pkgs, SSA: prog, ByPath: map[string]*ssa.Package{}, PPkg: map[string]*packages.Package{},
		CS: NewContractSet(), fnIndex: map[string]*ssa.Function{}, loops: map[*ssa.Function][]*Loop{}}
	if len(pkgs) > 0 {
		P.Fset = pkgs[0].Fset
	}
	{
		paths := map[string]map[string]bool{}
		for _, ap := range prog.AllPackages() {
			if ap.Pkg == nil {
				continue
			}
			if paths[ap.Pkg.Name()] == nil {
				paths[ap.Pkg.Name()] = map[string]bool{}
			}
			paths[ap.Pkg.Name()][ap.Pkg.Path()] = true
		}
		for name, ps := range paths {
			if len(ps) > 1 {
				ambiguousPkgNames[name] = true
			}
		}
	}
	for i, sp := range spkgs {
		if sp == nil {
			continue
		}
		sp.Build()
		P.ByPath[pkgs[i].PkgPath] = sp
		P.PPkg[pkgs[i].PkgPath] = pkgs[i]
	}
	// contract files
	for _, p := range pkgs {
		for _, f := range p.GoFiles {
			if filepath.Base(f) == "zz_verif_contracts.go" {
				if err := P.CS.ParseFile(f, p.PkgPath); err != nil {
					return nil, err
				}
			}
		}
	}
	if contractsDir != "" {
		files, _ := filepath.Glob(filepath.Join(contractsDir, "*.contracts"))
		sort.Strings(files)
		for _, f := range files {
			if err := P.CS.ParseFile(f, ""); err != nil {
				return nil, err
			}
		}
	}
	return P, nil
}

// allFuncs enumerates functions (incl. methods and closures) of a package.
func (P *Program) indexPkg(path string) {
	sp := P.ByPath[path]
	if sp == nil {
		return
	}
	if _, done := P.fnIndex["#"+path]; done {
		return
	}
	P.fnIndex["#"+path] = nil
	var add func(f *ssa.Function)
	add = func(f *ssa.Function) {
		if f == nil {
			return
		}
		P.fnIndex[path+"."+f.RelString(sp.Pkg)] = f
		for _, a := range f.AnonFuncs {
			add(a)
		}
	}
	for _, m := range sp.Members {
		switch m := m.(type) {
		case *ssa.Function:
			add(m)
		case *ssa.Type:
			for _, t := range []types.Type{m.Type(), types.NewPointer(m.Type())} {
				ms := P.SSA.MethodSets.MethodSet(t)
				for i := 0; i < ms.Len(); i++ {
					fn := P.SSA.MethodValue(ms.At(i))
					if fn != nil && fn.Synthetic == "" {
						add(fn)
					}
				}
			}
		}
	}
}

func (P *Program) FindFunc(pkgPath, rel string) *ssa.Function {
	P.mu.Lock()
	defer P.mu.Unlock()
	P.indexPkg(pkgPath)
	return P.fnIndex[pkgPath+"."+rel]
}

func (P *Program) ContractFor(fn *ssa.Function) *FuncContract {
	if fn == nil {
		return nil
	}
	if fn.Pkg != nil {
		k := fn.Pkg.Pkg.Path() + "." + fn.RelString(fn.Pkg.Pkg)
		if c, ok := P.CS.Funcs[k]; ok {
			return c
		}
	}
	if c, ok := P.CS.Externs[fn.String()]; ok {
		return c
	}
	// an instance of a generic function answers to the contract written for the generic function
	if o := fn.Origin(); o != nil && o != fn {
		return P.ContractFor(o)
	}
	return nil
}

// ContractForAt: a contract written for one call site (extern <callee>@<caller>) takes precedence there; its clauses
// may refer to the caller's parameters as caller.<name>.
func (P *Program) ContractForAt(fn, caller *ssa.Function) (*FuncContract, bool) {
	if fn != nil && caller != nil && caller.Pkg != nil {
		k := fn.String() + "@" + caller.Pkg.Pkg.Name() + "." + caller.RelString(caller.Pkg.Pkg)
		if c, ok := P.CS.Externs[k]; ok {
			return c, true
		}
		// an instance of a generic function answers to the at-site contract written for the generic function
		if o := fn.Origin(); o != nil && o != fn {
			k = o.String() + "@" + caller.Pkg.Pkg.Name() + "." + caller.RelString(caller.Pkg.Pkg)
			if c, ok := P.CS.Externs[k]; ok {
				return c, true
			}
		}
	}
	return P.ContractFor(fn), false
}

func (P *Program) pos(p token.Pos) string {
	if !p.IsValid() || P.Fset == nil {
		return ""
	}
	pp := P.Fset.Position(p)
	return fmt.Sprintf("%s:%d", strings.TrimPrefix(pp.Filename, P.RepoDir+"/"), pp.Line)
}

// ------------------------------------------------------------------ loops

type Loop struct {
	Header   *ssa.BasicBlock
	Blocks   map[*ssa.BasicBlock]bool
	Parent   *Loop
	Children []*Loop
	Ordinal  int
}

func (P *Program) Loops(fn *ssa.Function) []*Loop {
	P.mu.Lock()
	defer P.mu.Unlock()
	if l, ok := P.loops[fn]; ok {
		return l
	}
	byHeader := map[*ssa.BasicBlock]*Loop{}
	var order []*Loop
	for _, b := range fn.Blocks {
		for _, s := range b.Succs {
			if s.Dominates(b) { // back edge b -> s
				l := byHeader[s]
				if l == nil {
					l = &Loop{Header: s, Blocks: map[*ssa.BasicBlock]bool{s: true}}
					byHeader[s] = l
					order = append(order, l)
				}
				// nodes that reach b without passing through s
				stack := []*ssa.BasicBlock{b}
				for len(stack) > 0 {
					x := stack[len(stack)-1]
					stack = stack[:len(stack)-1]
					if l.Blocks[x] {
						continue
					}
					l.Blocks[x] = true
					stack = append(stack, x.Preds...)
				}
			}
		}
	}
	// source order: by position of the header's first instruction, falling back to block index
	sort.SliceStable(order, func(i, j int) bool { return order[i].Header.Index < order[j].Header.Index })
	// Use the position of the loop's For/Range statement when available: block comments are stable ("for.loop", "rangeindex.loop")
	sort.SliceStable(order, func(i, j int) bool { return loopPos(order[i]) < loopPos(order[j]) })
	for i, l := range order {
		l.Ordinal = i
	}
	// nesting: parent = smallest strictly containing loop
	for _, l := range order {
		for _, m := range order {
			if m == l || !m.Blocks[l.Header] || len(m.Blocks) <= len(l.Blocks) {
				continue
			}
			if l.Parent == nil || len(m.Blocks) < len(l.Parent.Blocks) {
				l.Parent = m
			}
		}
	}
	for _, l := range order {
		if l.Parent != nil {
			l.Parent.Children = append(l.Parent.Children, l)
		}
	}
	P.loops[fn] = order
	return order
}

func loopPos(l *Loop) token.Pos {
	best := token.Pos(1 << 40)
	for b := range l.Blocks {
		for _, in := range b.Instrs {
			if p := in.Pos(); p.IsValid() && p < best {
				best = p
			}
		}
	}
	return best
}

// innermost loop (among loops) whose body contains b and which is a direct child of parent
func childLoopOf(loops []*Loop, parent *Loop, b *ssa.BasicBlock) *Loop {
	for _, l := range loops {
		if l.Parent == parent && l.Blocks[b] {
			return l
		}
	}
	return nil
}

// debugNames maps source variable names to the SSA values that hold them (from DebugRef instructions).
func debugNames(fn *ssa.Function) map[string][]ssa.Value {
	m := map[string][]ssa.Value{}
	for _, b := range fn.Blocks {
		for _, in := range b.Instrs {
			if d, ok := in.(*ssa.DebugRef); ok {
				if id, ok := d.Expr.(*ast.Ident); ok {
					name := id.Name + addrSuffix(d.IsAddr)
					found := false
					for _, v := range m[name] {
						if v == d.X {
							found = true
						}
					}
					if !found {
						m[name] = append(m[name], d.X)
					}
				}
			}
		}
	}
	return m
}

func addrSuffix(isAddr bool) string {
	if isAddr {
		return "&"
	}
	return ""
}
