package main

// Solver portfolio: z3-new, z3 4.8.12 and cvc5 race on each obligation.

import (
	"bytes"
	"context"
	"fmt"
	"os"
	"os/exec"
	"path/filepath"
	"regexp"
	"strings"
	"sync"
	"time"
)

type SolveResult struct {
	Retried   bool   // the first attempt timed out and the obligation was solved again alone with a larger budget
	Status    string // "unsat" (discharged), "sat", "unknown", "timeout", "error"
	Backend   string
	Seconds   float64
	Output    string
	Model     map[string]string
	ModelList []string
	File      string
	Disagree  string
	All       map[string]string
}

type backend struct {
	name string
	argv func(file string, timeoutS int) []string
}

var backends = []backend{
	{"z3-new", func(f string, t int) []string { return []string{"z3-new", fmt.Sprintf("-T:%d", t), f} }},
	{"z3", func(f string, t int) []string { return []string{"z3", fmt.Sprintf("-T:%d", t), f} }},
	{"cvc5", func(f string, t int) []string {
		return []string{"cvc5", "--incremental", fmt.Sprintf("--tlimit=%d", t*1000), f}
	}},
}

var fileSafe = regexp.MustCompile(`[^A-Za-z0-9_.\-\[\]#]+`)

func oblFile(outDir, name string) string {
	n := fileSafe.ReplaceAllString(name, "_")
	if len(n) > 180 {
		n = n[:180]
	}
	return filepath.Join(outDir, n+".smt2")
}

// Render builds the SMT script of an obligation: facts ∧ pc ∧ ¬goal.
func (ex *Exec) Render(o *Obligation) string { return ex.renderWith(o, nil) }

func (ex *Exec) renderWith(o *Obligation, extra []*Term) string {
	return ex.renderOpt(o, extra, false, false)
}

// renderOpt: ground=true drops quantified facts (a relaxation used only to find candidate inputs, which must
// then replay on the real code); negGoal=false asserts the goal positively (used by the replay confirmation).
func (ex *Exec) renderOpt(o *Obligation, extra []*Term, ground bool, positive bool) string {
	var asserts []*Term
	asserts = append(asserts, extra...)
	seen := map[int]bool{}
	qmemo := map[int]bool{}
	if ground {
		ex.p.RecAsDefine = true
		defer func() { ex.p.RecAsDefine = false }()
	}
	relevant := ex.relevantFacts(o, extra)
	for fi, f := range ex.facts[:o.NFacts] {
		if f.IsTrue() || seen[f.id] {
			continue
		}
		if ground && f.HasQuant(qmemo) {
			continue
		}
		if relevant != nil && !relevant[fi] {
			continue
		}
		seen[f.id] = true
		asserts = append(asserts, f)
	}
	if !ground && len(ex.bitCache) > 1 && len(ex.bitCache) <= 12 {
		asserts = append(asserts, ex.bitLemmas()...)
	}
	asserts = append(asserts, o.PC)
	if positive {
		asserts = append(asserts, o.Goal)
	} else {
		asserts = append(asserts, ex.p.Not(o.Goal))
	}
	for _, zn := range []string{"ZeroHash", "ZeroAddr"} {
		if c, ok := ex.p.consts[zn]; ok {
			ex.inputs["const:"+zn] = c
		}
	}
	var model []*Term
	o.ModelKeys = nil
	for _, k := range sortedInputNames(ex.inputs) {
		model = append(model, ex.inputs[k])
		o.ModelKeys = append(o.ModelKeys, k)
	}
	hdr := "(set-option :produce-models true)\n(set-logic ALL)\n"
	return fmt.Sprintf("; obligation %s\n; %s\n; at %s\n", o.Name, strings.ReplaceAll(o.Detail, "\n", " "), o.Pos) +
		ex.p.Script(asserts, model, hdr)
}

func sortedInputNames(m map[string]*Term) []string {
	var ks []string
	for k := range m {
		ks = append(ks, k)
	}
	sortStrings(ks)
	return ks
}

func sortStrings(s []string) {
	for i := 1; i < len(s); i++ {
		for j := i; j > 0 && s[j] < s[j-1]; j-- {
			s[j], s[j-1] = s[j-1], s[j]
		}
	}
}

func runOne(ctx context.Context, b backend, file string, timeoutS int) (string, string) {
	argv := b.argv(file, timeoutS)
	cctx, cancel := context.WithTimeout(ctx, time.Duration(timeoutS+2)*time.Second)
	defer cancel()
	cmd := exec.CommandContext(cctx, argv[0], argv[1:]...)
	var out bytes.Buffer
	cmd.Stdout = &out
	cmd.Stderr = &out
	_ = cmd.Run()
	s := out.String()
	first := strings.TrimSpace(strings.SplitN(s, "\n", 2)[0])
	switch first {
	case "unsat", "sat", "unknown":
		return first, s
	}
	if ctx.Err() != nil {
		return "cancelled", s
	}
	if cctx.Err() != nil || strings.Contains(s, "timeout") || strings.Contains(s, "interrupted") {
		return "timeout", s
	}
	return "error", s
}

var valueRe = regexp.MustCompile(`\(\s*(\|[^|]*\||[^\s()]+)\s+(.+)\)\s*$`)

// parseModelList returns the values of a (get-value …) answer in order.
func parseModelList(out string) []string {
	var vals []string
	lines := strings.Split(out, "\n")
	if len(lines) < 2 {
		return nil
	}
	body := strings.TrimSpace(strings.Join(lines[1:], "\n"))
	if !strings.HasPrefix(body, "(") {
		return nil
	}
	x := parseSx(body)
	if x == nil {
		return nil
	}
	for _, pair := range x.list {
		if len(pair.list) == 2 {
			vals = append(vals, pair.list[1].String())
		}
	}
	return vals
}

// Solve races the back ends; in thorough mode all are run to completion and compared.
func Solve(file string, timeoutS int, all bool, cover bool) *SolveResult {
	ctx, cancel := context.WithCancel(context.Background())
	defer cancel()
	type ans struct {
		b      string
		status string
		out    string
		secs   float64
	}
	ch := make(chan ans, len(backends))
	var wg sync.WaitGroup
	for _, b := range backends {
		wg.Add(1)
		go func(b backend) {
			defer wg.Done()
			t0 := time.Now()
			st, out := runOne(ctx, b, file, timeoutS)
			ch <- ans{b.name, st, out, time.Since(t0).Seconds()}
		}(b)
	}
	go func() { wg.Wait(); close(ch) }()
	res := &SolveResult{Status: "timeout", File: file, All: map[string]string{}}
	var best *ans
	for a := range ch {
		a := a
		res.All[a.b] = a.status
		definite := a.status == "unsat" || a.status == "sat"
		if definite && best == nil {
			best = &a
			if !all {
				cancel()
			} else {
				// thorough: the other back ends get a short grace period to confirm or contradict the answer
				go func() { time.Sleep(5 * time.Second); cancel() }()
			}
		} else if definite && best != nil && best.status != a.status {
			res.Disagree = fmt.Sprintf("%s says %s, %s says %s", best.b, best.status, a.b, a.status)
		}
		if best == nil && a.status == "unknown" {
			if cover && !all {
				// a cover only looks for "unsat" (vacuous); the first "unknown" is not yet an answer, so the other
				// back ends get a short time to refute the cover before it is left undecided
				go func() { time.Sleep(1 * time.Second); cancel() }()
			} else if cover {
				go func() { time.Sleep(5 * time.Second); cancel() }()
			}
			res.Status = "unknown"
			res.Backend = a.b
			res.Output = a.out
			res.Seconds = a.secs
		}
		if best == nil && res.Status == "timeout" && a.status == "error" {
			res.Output = a.out
		}
	}
	if best != nil {
		res.Status = best.status
		res.Backend = best.b
		res.Seconds = best.secs
		res.Output = best.out
		if best.status == "sat" {
			res.ModelList = parseModelList(best.out)
		}
	}
	if len(res.Output) > 4000 {
		res.Output = res.Output[:4000]
	}
	return res
}

func writeFile(path, content string) error {
	if err := os.MkdirAll(filepath.Dir(path), 0o755); err != nil {
		return err
	}
	return os.WriteFile(path, []byte(content), 0o644)
}

// symbolsOf collects the free constants and uninterpreted functions of a term (memoised per executor).
func (ex *Exec) symbolsOf(t *Term) map[string]bool {
	if s, ok := ex.symMemo[t.id]; ok {
		return s
	}
	out := map[string]bool{}
	seen := map[int]bool{}
	var rec func(t *Term)
	rec = func(t *Term) {
		if seen[t.id] {
			return
		}
		seen[t.id] = true
		switch t.Op {
		case "const":
			if !strings.HasPrefix(t.Name, "heapTop") {
				out[t.Name] = true
			}
		case "app":
			if t.Fn != nil && t.Fn.DefBody == nil {
				out["fn:"+t.Name] = true
			}
			if t.Fn != nil && t.Fn.DefBody != nil {
				// a defined function: the symbols of its body are used wherever it is applied
				rec(t.Fn.DefBody)
			}
		}
		for _, a := range t.Args {
			rec(a)
		}
	}
	rec(t)
	ex.symMemo[t.id] = out
	return out
}

// relevantFacts: cone of influence. A fact is kept if it shares a symbol with the goal, the path condition, or
// (transitively) another kept fact. Dropping assumptions is always sound for a proof; it only removes noise.
// Quantified facts (axioms) are always kept.
func (ex *Exec) relevantFacts(o *Obligation, extra []*Term) map[int]bool {
	if o.Kind == "requires-sat" || o.Kind == "reach" || os.Getenv("GOVC_NOCOI") != "" {
		return nil // vacuity covers must see every fact
	}
	n := o.NFacts
	syms := make([]map[string]bool, n)
	qm := map[int]bool{}
	keep := map[int]bool{}
	rel := map[string]bool{}
	add := func(m map[string]bool) {
		for k := range m {
			rel[k] = true
		}
	}
	add(ex.symbolsOf(o.PC))
	add(ex.symbolsOf(o.Goal))
	for _, e := range extra {
		add(ex.symbolsOf(e))
	}
	for i := 0; i < n; i++ {
		f := ex.facts[i]
		if f.HasQuant(qm) {
			keep[i] = true
			add(ex.symbolsOf(f))
			continue
		}
		syms[i] = ex.symbolsOf(f)
	}
	for changed := true; changed; {
		changed = false
		for i := 0; i < n; i++ {
			if keep[i] || syms[i] == nil {
				continue
			}
			hit := len(syms[i]) == 0
			for k := range syms[i] {
				if rel[k] {
					hit = true
					break
				}
			}
			if hit {
				keep[i] = true
				for k := range syms[i] {
					if !rel[k] {
						rel[k] = true
						changed = true
					}
				}
			}
		}
	}
	return keep
}
