package main

// Mapping of Go types to SMT sorts and values.

import (
	"fmt"
	"go/types"
	"math/big"
	"regexp"
	"strings"
)

type TypeMap struct {
	p        *Pool
	cache    map[string]*Sort
	structOf map[*Sort]*types.Struct
	nameOf   map[*Sort]string
	names    map[string]int
	SliceS   *Sort
	HashS    *Sort
	AddrS    *Sort
	StrS     *Sort
	BytesS   *Sort
	ConstArr func(s *Sort, v *Term) *Term
	Bounds   func(t *Term) (lo, hi *big.Int) // optional interval oracle (nil bounds = unknown)
}

func NewTypeMap(p *Pool) *TypeMap {
	tm := &TypeMap{p: p, cache: map[string]*Sort{}, structOf: map[*Sort]*types.Struct{}, nameOf: map[*Sort]string{}, names: map[string]int{}}
	tm.HashS = p.USort("Hash")
	tm.AddrS = p.USort("Addr")
	tm.StrS = p.USort("Str")
	tm.BytesS = p.USort("Bytes")
	tm.SliceS = p.DataSort("Slice", func(self *Sort) []DField {
		return []DField{{"Slice.ref", IntSort}, {"Slice.off", IntSort}, {"Slice.len", IntSort}, {"Slice.cap", IntSort}}
	})
	return tm
}

func typeKey(t types.Type) string { return types.TypeString(t, nil) }

func isNamed(t types.Type, pkgSuffix, name string) bool {
	t = types.Unalias(t)
	n, ok := t.(*types.Named)
	if !ok {
		return false
	}
	o := n.Obj()
	if o.Name() != name || o.Pkg() == nil {
		return false
	}
	return strings.HasSuffix(o.Pkg().Path(), pkgSuffix)
}

func isHashType(t types.Type) bool {
	return isNamed(t, "go-ethereum/common", "Hash")
}
func isAddrType(t types.Type) bool {
	return isNamed(t, "go-ethereum/common", "Address")
}

// ambiguousPkgNames: package names carried by more than one loaded package (types, db, grpc, ...). Types of such
// packages are qualified by the last two path elements, so that regions and sorts of equally named types of different
// packages (agglayer/types.CertificateHeader vs aggsender/types.CertificateHeader) are kept apart.
var ambiguousPkgNames = map[string]bool{}

func pkgQualifier(p *types.Package) string {
	if !ambiguousPkgNames[p.Name()] {
		return p.Name()
	}
	parts := strings.Split(p.Path(), "/")
	if len(parts) >= 2 {
		return parts[len(parts)-2] + "/" + parts[len(parts)-1]
	}
	return p.Path()
}

// shortTypeName names a type for region keys: aliases must not split one type into two regions (a `[1]any` array
// literal is read back through a `[]interface{}` field), so the universe alias `any` is printed as interface{}.
var anyWord = regexp.MustCompile(`(^|[^.\w])any\b`)

func shortTypeName(t types.Type) string {
	s := types.TypeString(types.Unalias(t), pkgQualifier)
	if strings.Contains(s, "any") {
		s = anyWord.ReplaceAllString(s, "${1}interface{}")
	}
	return s
}

func (tm *TypeMap) SortOf(t types.Type) *Sort {
	t = types.Unalias(t)
	k := typeKey(t)
	if s, ok := tm.cache[k]; ok {
		return s
	}
	s := tm.sortOf(t)
	tm.cache[k] = s
	return s
}

func (tm *TypeMap) sortOf(t types.Type) *Sort {
	if isHashType(t) {
		return tm.HashS
	}
	if isAddrType(t) {
		return tm.AddrS
	}
	switch u := t.Underlying().(type) {
	case *types.Basic:
		switch {
		case u.Info()&types.IsBoolean != 0:
			return BoolSort
		case u.Info()&types.IsInteger != 0:
			return IntSort
		case u.Info()&types.IsFloat != 0:
			return RealSort
		case u.Info()&types.IsString != 0:
			return tm.StrS
		case u.Kind() == types.UnsafePointer || u.Kind() == types.UntypedNil:
			return IntSort
		}
	case *types.Pointer, *types.Interface, *types.Chan, *types.Signature, *types.Map:
		return IntSort
	case *types.Slice:
		return tm.SliceS
	case *types.Array:
		return tm.p.ArraySort(IntSort, tm.SortOf(u.Elem()))
	case *types.Struct:
		name := shortTypeName(t)
		if _, isStruct := t.(*types.Struct); isStruct {
			name = "anon"
		}
		tm.names[name]++
		if tm.names[name] > 1 {
			name = fmt.Sprintf("%s~%d", name, tm.names[name])
		}
		s := tm.p.DataSort(name, func(self *Sort) []DField {
			tm.cache[typeKey(t)] = self
			fs := make([]DField, u.NumFields())
			for i := 0; i < u.NumFields(); i++ {
				fs[i] = DField{Name: name + "." + u.Field(i).Name(), Sort: tm.SortOf(u.Field(i).Type())}
			}
			return fs
		})
		tm.structOf[s] = u
		tm.nameOf[s] = name
		return s
	case *types.Tuple:
		panic("sortOf tuple")
	}
	panic("sortOf: unsupported type " + t.String())
}

// Zero value of a Go type.
func (tm *TypeMap) Zero(t types.Type) *Term {
	p := tm.p
	t = types.Unalias(t)
	if isHashType(t) {
		return p.Const("ZeroHash", tm.HashS)
	}
	if isAddrType(t) {
		return p.Const("ZeroAddr", tm.AddrS)
	}
	switch u := t.Underlying().(type) {
	case *types.Basic:
		switch {
		case u.Info()&types.IsBoolean != 0:
			return p.False()
		case u.Info()&types.IsInteger != 0:
			return p.Int(0)
		case u.Info()&types.IsFloat != 0:
			return p.Real(new(big.Rat))
		case u.Info()&types.IsString != 0:
			return p.Const("EmptyStr", tm.StrS)
		default:
			return p.Int(0)
		}
	case *types.Pointer, *types.Interface, *types.Chan, *types.Signature, *types.Map:
		return p.Int(0)
	case *types.Slice:
		return p.Mk(tm.SliceS, p.Int(0), p.Int(0), p.Int(0), p.Int(0))
	case *types.Array:
		return tm.constArr(tm.SortOf(t), tm.Zero(u.Elem()))
	case *types.Struct:
		s := tm.SortOf(t)
		fs := make([]*Term, u.NumFields())
		for i := range fs {
			fs[i] = tm.Zero(u.Field(i).Type())
		}
		return p.Mk(s, fs...)
	}
	panic("zero: unsupported " + t.String())
}

func intRange(b *types.Basic) (lo, hi *big.Int, ok bool) {
	one := big.NewInt(1)
	pow := func(n uint) *big.Int { return new(big.Int).Lsh(one, n) }
	switch b.Kind() {
	case types.Int, types.Int64:
		return new(big.Int).Neg(pow(63)), new(big.Int).Sub(pow(63), one), true
	case types.Int32:
		return new(big.Int).Neg(pow(31)), new(big.Int).Sub(pow(31), one), true
	case types.Int16:
		return new(big.Int).Neg(pow(15)), new(big.Int).Sub(pow(15), one), true
	case types.Int8:
		return new(big.Int).Neg(pow(7)), new(big.Int).Sub(pow(7), one), true
	case types.Uint, types.Uint64, types.Uintptr:
		return new(big.Int), new(big.Int).Sub(pow(64), one), true
	case types.Uint32:
		return new(big.Int), new(big.Int).Sub(pow(32), one), true
	case types.Uint16:
		return new(big.Int), new(big.Int).Sub(pow(16), one), true
	case types.Uint8:
		return new(big.Int), new(big.Int).Sub(pow(8), one), true
	}
	return nil, nil, false
}

func basicInt(t types.Type) (*types.Basic, bool) {
	b, ok := t.Underlying().(*types.Basic)
	if !ok || b.Info()&types.IsInteger == 0 {
		return nil, false
	}
	if b.Kind() == types.UntypedInt || b.Kind() == types.UntypedRune {
		return nil, false
	}
	return b, true
}

// Wrap reduces a mathematical integer to the machine range of type t.
func (tm *TypeMap) Wrap(x *Term, t types.Type) *Term {
	b, ok := basicInt(t)
	if !ok {
		return x
	}
	lo, hi, _ := intRange(b)
	if x.Op == "int" && x.Int.Cmp(lo) >= 0 && x.Int.Cmp(hi) <= 0 {
		return x
	}
	p := tm.p
	if tm.Bounds != nil {
		if bl, bh := tm.Bounds(x); bl != nil && bh != nil && bl.Cmp(lo) >= 0 && bh.Cmp(hi) <= 0 {
			return x // provably in range: no wrap-around
		}
	}
	size := new(big.Int).Add(new(big.Int).Sub(hi, lo), big.NewInt(1))
	if lo.Sign() == 0 {
		return p.Mod(x, p.IntBig(size))
	}
	// signed: ((x - lo) mod size) + lo
	return p.Add(p.Mod(p.Sub(x, p.IntBig(lo)), p.IntBig(size)), p.IntBig(lo))
}

// InRange: the type invariant of a value of type t (integers within range; slices well-formed), shallow.
func (tm *TypeMap) InRange(x *Term, t types.Type, depth int) *Term {
	p := tm.p
	t = types.Unalias(t)
	if isHashType(t) || isAddrType(t) {
		return p.True()
	}
	switch u := t.Underlying().(type) {
	case *types.Basic:
		if b, ok := basicInt(t); ok {
			lo, hi, _ := intRange(b)
			if x.Op == "int" {
				return p.True()
			}
			return p.And(p.Le(p.IntBig(lo), x), p.Le(x, p.IntBig(hi)))
		}
	case *types.Pointer, *types.Interface, *types.Chan, *types.Signature, *types.Map:
		return p.Ge(x, p.Int(0))
	case *types.Slice:
		if x.Op == "mk" && x.Args[2].Op == "int" && x.Args[1].Op == "int" && x.Args[0].Op == "int" {
			return p.True()
		}
		return p.And(p.Ge(p.Acc(x, 0), p.Int(0)), p.Ge(p.Acc(x, 1), p.Int(0)), p.Ge(p.Acc(x, 2), p.Int(0)),
			p.Le(p.Acc(x, 2), p.Acc(x, 3)), p.Le(p.Acc(x, 3), p.Int(1<<40)), p.Le(p.Acc(x, 2), p.Int(1<<40)),
			p.Implies(p.Eq(p.Acc(x, 0), p.Int(0)), p.Eq(p.Acc(x, 3), p.Int(0))))
	case *types.Struct:
		if depth > 3 {
			return p.True()
		}
		var cs []*Term
		for i := 0; i < u.NumFields(); i++ {
			cs = append(cs, tm.InRange(p.Acc(x, i), u.Field(i).Type(), depth+1))
		}
		return p.And(cs...)
	}
	return p.True()
}

func isValueTerm(t *Term) bool {
	switch t.Op {
	case "int", "real", "true", "false":
		return true
	case "mk":
		for _, a := range t.Args {
			if !isValueTerm(a) {
				return false
			}
		}
		return true
	case "constarr":
		return isValueTerm(t.Args[0])
	}
	return false
}

// constArr: cvc5 only accepts values under (as const …); other elements get a named array with an axiom.
func (tm *TypeMap) constArr(s *Sort, v *Term) *Term {
	if isValueTerm(v) || tm.ConstArr == nil {
		return tm.p.ConstArray(s, v)
	}
	return tm.ConstArr(s, v)
}
