package main

import (
	"fmt"
	"go/types"

	"golang.org/x/tools/go/ssa"
)

// Ownership check behind the model of append. append is modelled as producing a new backing array (value semantics).
// That is what the program observes exactly when nothing else can look at the backing array of the slice being
// extended: growing in place is then indistinguishable from reallocating. appendOwnerOK decides, from the SSA alone,
// whether that holds for one append call:
//
//   - the extended slice is nil, or a value this function made (make, a slice literal, an earlier append) and carried
//     only through phis; or it was loaded from a memory place (field, local, element) and the result is stored back to
//     that same place; or it is a parameter / call result that is used by this append only;
//   - the extended value is not a re-slice (x[:0], x[a:b]) and is used by nothing that could keep it alive next to the
//     result: it is not stored, passed on, returned, re-sliced, boxed or extended a second time.
//
// Where the check does not hold the engine falls back to the exact two-case model of append (grow in place when the
// capacity suffices - the cells beyond the length of the shared backing array are overwritten - else reallocate),
// which costs a case split over the whole region of that element type.
func appendOwnerOK(call *ssa.Call) (bool, string) {
	s := call.Call.Args[0]
	seen := map[ssa.Value]bool{}
	return ownedSlice(s, call, seen)
}

func ownedSlice(v ssa.Value, call *ssa.Call, seen map[ssa.Value]bool) (bool, string) {
	if seen[v] {
		return true, "cycle"
	}
	seen[v] = true
	switch x := v.(type) {
	case *ssa.Const:
		return true, "nil slice"
	case *ssa.Slice:
		// a slice literal is lowered to new [n]T; slice t[:] - the array is made here and not visible elsewhere
		if al, ok := x.X.(*ssa.Alloc); ok {
			// (make with a constant size is lowered the same way: new [n]T (makeslice); slice t[:n])
			if _, isArr := al.Type().Underlying().(*types.Pointer).Elem().Underlying().(*types.Array); isArr && onlySliceLit(al, x) {
				if ok, why := usesKeepNoAlias(x, call); !ok {
					return false, why
				}
				return true, "slice literal"
			}
		}
		return false, "append extends a re-slice (x[a:b]) of another slice: the two share a backing array"
	case *ssa.MakeSlice:
		if ok, why := usesKeepNoAlias(x, call); !ok {
			return false, why
		}
		return true, "made here"
	case *ssa.Call:
		if bi, ok := x.Call.Value.(*ssa.Builtin); ok && bi.Name() == "append" {
			if ok, why := usesKeepNoAlias(x, call); !ok {
				return false, why
			}
			// the earlier append must itself have extended an owned slice (otherwise its result may be the aliased array)
			if ok, why := ownedSlice(x.Call.Args[0], x, seen); !ok {
				return false, "result of an earlier append that " + why
			}
			return true, "result of an earlier append"
		}
		// result of another function: owned by whoever called; acceptable when nothing else here keeps it
		if ok, why := usesKeepNoAlias(x, call); !ok {
			return false, why
		}
		return true, "call result used by this append only"
	case *ssa.Extract:
		if ok, why := usesKeepNoAlias(x, call); !ok {
			return false, why
		}
		return true, "call result used by this append only"
	case *ssa.Phi:
		if ok, why := usesKeepNoAlias(x, call); !ok {
			return false, why
		}
		for _, e := range x.Edges {
			if ok, why := ownedSlice(e, call, seen); !ok {
				return false, why
			}
		}
		return true, "carried through a phi"
	case *ssa.Parameter:
		if ok, why := usesKeepNoAlias(x, call); !ok {
			return false, why
		}
		return true, "parameter used by this append only (the caller's view of the array beyond its length is not tracked)"
	case *ssa.UnOp:
		// load from a memory place: the result must go back to the same place
		if ok, why := usesKeepNoAlias(x, call); !ok {
			return false, why
		}
		for _, r := range *call.Referrers() {
			if st, ok := r.(*ssa.Store); ok && st.Val == ssa.Value(call) && samePlace(st.Addr, x.X) {
				return true, "loaded from a place the result is stored back to"
			}
		}
		// the result of the chain may be stored back after further appends / a phi: follow one level
		for _, r := range *call.Referrers() {
			if c2, ok := r.(*ssa.Call); ok {
				if bi, isB := c2.Call.Value.(*ssa.Builtin); isB && bi.Name() == "append" && c2.Call.Args[0] == ssa.Value(call) {
					for _, r2 := range *c2.Referrers() {
						if st, ok := r2.(*ssa.Store); ok && st.Val == ssa.Value(c2) && samePlace(st.Addr, x.X) {
							return true, "loaded from a place the result of the append chain is stored back to"
						}
					}
				}
			}
		}
		return false, "append extends a slice held in memory and the result is not stored back to that place: both may share a backing array"
	case *ssa.ChangeType:
		return ownedSlice(x.X, call, seen)
	}
	return false, fmt.Sprintf("append extends a value of a shape the ownership check does not know (%T)", v)
}

func onlySliceLit(al *ssa.Alloc, sl *ssa.Slice) bool {
	for _, r := range *al.Referrers() {
		switch y := r.(type) {
		case *ssa.IndexAddr:
			for _, r2 := range *y.Referrers() {
				if st, ok := r2.(*ssa.Store); !ok || st.Addr != ssa.Value(y) {
					if _, dbg := r2.(*ssa.DebugRef); !dbg {
						return false
					}
				}
			}
		case *ssa.Slice:
			if y != sl {
				return false
			}
		case *ssa.DebugRef:
		default:
			return false
		}
	}
	return true
}

// usesKeepNoAlias: apart from the append under consideration, v is only read (len, cap, indexing, range, comparison,
// phi) - nothing stores it, passes it on, returns it, re-slices it or extends it a second time.
func usesKeepNoAlias(v ssa.Value, call *ssa.Call) (bool, string) {
	refs := v.Referrers()
	if refs == nil {
		return true, ""
	}
	for _, r := range *refs {
		switch y := r.(type) {
		case *ssa.Call:
			if y == call {
				for i, a := range y.Call.Args {
					if i > 0 && a == v {
						return false, "append extends a slice with (part of) itself"
					}
				}
				continue
			}
			if bi, ok := y.Call.Value.(*ssa.Builtin); ok {
				switch bi.Name() {
				case "len", "cap":
					continue
				case "append":
					if y.Call.Args[0] == v && coexists(v, call, y) {
						return false, "the same slice value is extended by two appends: the results may share a backing array"
					}
					// v appended as elements to another slice (copied): no alias of the array itself unless element type is a slice
					continue
				case "copy":
					continue
				}
			}
			if coexists(v, call, y) {
				return false, "the extended slice is also passed to " + y.Call.Value.Name() + " around the append: the callee may keep it"
			}
		case *ssa.Index, *ssa.IndexAddr, *ssa.Range, *ssa.Phi, *ssa.DebugRef, *ssa.BinOp, *ssa.If:
			continue
		case *ssa.Store:
			if y.Val == v && coexists(v, call, y) {
				return false, "the extended slice is also stored around the append: the stored copy and the result may share a backing array"
			}
		case *ssa.Return:
			if coexists(v, call, y) {
				return false, "the extended slice is also returned after the append: it and the result may share a backing array"
			}
		case *ssa.Slice:
			if coexists(v, call, y) {
				return false, "the extended slice is also re-sliced around the append: the re-slice and the result may share a backing array"
			}
		default:
			return false, fmt.Sprintf("the extended slice is also used by %T", r)
		}
	}
	return true, ""
}

// samePlace: two address values denote the same memory place (same SSA value, the same field of the same base, the
// same element of the same base).
func samePlace(a, b ssa.Value) bool {
	if a == b {
		return true
	}
	switch x := a.(type) {
	case *ssa.FieldAddr:
		if y, ok := b.(*ssa.FieldAddr); ok {
			return x.Field == y.Field && samePlace(x.X, y.X)
		}
	case *ssa.IndexAddr:
		if y, ok := b.(*ssa.IndexAddr); ok {
			return x.Index == y.Index && samePlace(x.X, y.X)
		}
	case *ssa.UnOp:
		if y, ok := b.(*ssa.UnOp); ok {
			return x.Op == y.Op && samePlace(x.X, y.X)
		}
	}
	return false
}

// coexists: can the append `a` of value v and the other use `u` of v both happen to the same dynamic instance of v?
// That needs a control-flow path from one to the other that does not pass through the definition of v again (for a
// loop-carried phi: its block). A use after the loop of a slice extended inside the loop is the ordinary
// "x = append(x, e) ... return x" and is not a coexistence.
func coexists(v ssa.Value, a *ssa.Call, u ssa.Instruction) bool {
	var def *ssa.BasicBlock
	if ph, ok := v.(*ssa.Phi); ok {
		def = ph.Block()
	}
	ab, ub := a.Block(), u.Block()
	if ab == ub {
		if def == ab {
			return true
		}
		return true
	}
	return reachAvoiding(ab, ub, def) || reachAvoiding(ub, ab, def)
}

func reachAvoiding(from, to, avoid *ssa.BasicBlock) bool {
	seen := map[*ssa.BasicBlock]bool{}
	var dfs func(b *ssa.BasicBlock) bool
	dfs = func(b *ssa.BasicBlock) bool {
		for _, s := range b.Succs {
			if s == to {
				return true
			}
			if s == avoid || seen[s] {
				continue
			}
			seen[s] = true
			if dfs(s) {
				return true
			}
		}
		return false
	}
	return dfs(from)
}
