package main

// Calls, builtins, interfaces, slices, maps, channels.

import (
	"fmt"
	"go/constant"
	"go/token"
	"go/types"
	"os"
	"sort"
	"strings"

	"golang.org/x/tools/go/ssa"
)

type boxInfo struct {
	v *Term
	t types.Type
}

func (ex *Exec) typeID(t types.Type) *Term {
	k := typeKey(t)
	id, ok := ex.typeIDs[k]
	if !ok {
		id = len(ex.typeIDs) + 1
		ex.typeIDs[k] = id
	}
	return ex.p.Int(int64(id))
}

func (ex *Exec) dynType(x *Term) *Term {
	f := ex.p.Func("dyntype", []*Sort{IntSort}, IntSort)
	return ex.p.App(f, x)
}

func (ex *Exec) noteDynType(x *Term, t types.Type) {
	ex.facts = append(ex.facts, ex.p.Eq(ex.dynType(x), ex.typeID(t)))
}

func (ex *Exec) typeAssert(st *State, in *ssa.TypeAssert, pos string) {
	p := ex.p
	x := ex.term(st, in.X)
	var ok *Term
	var v Val
	if it, isIface := in.AssertedType.Underlying().(*types.Interface); isIface {
		if types.Implements(in.X.Type(), it) || types.AssignableTo(in.X.Type(), in.AssertedType) {
			ok = p.Not(p.Eq(x, p.Int(0)))
		} else {
			f := p.Func("implements:"+shortTypeName(in.AssertedType), []*Sort{IntSort}, BoolSort)
			ok = p.And(p.Not(p.Eq(x, p.Int(0))), p.App(f, ex.dynType(x)))
		}
		v = x
	} else {
		ok = p.And(p.Not(p.Eq(x, p.Int(0))), p.Eq(ex.dynType(x), ex.typeID(in.AssertedType)))
		switch in.AssertedType.Underlying().(type) {
		case *types.Pointer:
			v = x
		default:
			if bi, isBox := ex.boxes[x]; isBox && types.Identical(bi.t, in.AssertedType) {
				v = bi.v
			} else {
				f := p.Func("unbox:"+shortTypeName(in.AssertedType), []*Sort{IntSort}, ex.tm.SortOf(in.AssertedType))
				u := p.App(f, x)
				ex.facts = append(ex.facts, ex.tm.InRange(u, in.AssertedType, 0))
				v = u
			}
		}
	}
	if in.CommaOk {
		vt := v.(*Term)
		st.vals[in] = TupleV{p.Ite(ok, vt, ex.tm.Zero(in.AssertedType)), ok}
		return
	}
	ex.oblige(st, "nopanic.typeassert", "type assertion to "+shortTypeName(in.AssertedType), ok, pos)
	st.vals[in] = v
}

// ------------------------------------------------------------------ slices as sequences

func (ex *Exec) seqSort(elem *Sort) *Sort { return ex.p.ArraySort(IntSort, elem) }

// sliceSeq: the backing array of a slice (indexing must add the offset).
func (ex *Exec) sliceBacking(st *State, s *Term, elem types.Type) *Term {
	p := ex.p
	if len(ex.constBacking) > 0 {
		var viaRef func(ref *Term) *Term
		viaRef = func(ref *Term) *Term {
			if c, ok := ex.constBacking[ref]; ok {
				return c
			}
			if ref.Op == "ite" {
				a, b := viaRef(ref.Args[1]), viaRef(ref.Args[2])
				if a != nil || b != nil {
					name := "[]" + shortTypeName(elem)
					rs := p.ArraySort(IntSort, p.ArraySort(IntSort, ex.tm.SortOf(elem)))
					r := ex.getRegion(st, name, rs)
					if a == nil {
						a = p.Select(r, ref.Args[1])
					}
					if b == nil {
						b = p.Select(r, ref.Args[2])
					}
					return p.Ite(ref.Args[0], a, b)
				}
			}
			return nil
		}
		if c := viaRef(p.Acc(s, 0)); c != nil {
			return c
		}
	}
	name := "[]" + shortTypeName(elem)
	rs := p.ArraySort(IntSort, p.ArraySort(IntSort, ex.tm.SortOf(elem)))
	r := ex.getRegion(st, name, rs)
	return p.Select(r, p.Acc(s, 0))
}

// sliceSeq returns an array term a such that a[i] is element i of the slice (offset removed when it is 0 syntactically).
func (ex *Exec) sliceSeq(st *State, s *Term, elem types.Type) *Term {
	p := ex.p
	b := ex.sliceBacking(st, s, elem)
	off := p.Acc(s, 1)
	if off.Op == "int" && off.Int.Sign() == 0 {
		return b
	}
	return ex.shiftView(b, off)
}

func (ex *Exec) sliceOp(st *State, in *ssa.Slice, pos string) Val {
	p := ex.p
	var lo, hi *Term
	if in.Low != nil {
		lo = ex.term(st, in.Low)
	} else {
		lo = p.Int(0)
	}
	switch xt := in.X.Type().Underlying().(type) {
	case *types.Slice:
		s := ex.term(st, in.X)
		if in.High != nil {
			hi = ex.term(st, in.High)
		} else {
			hi = p.Acc(s, 2)
		}
		capT := p.Acc(s, 3)
		ex.oblige(st, "nopanic.slice", "slice bounds in range", p.And(p.Le(p.Int(0), lo), p.Le(lo, hi), p.Le(hi, capT)), pos)
		return p.Mk(ex.tm.SliceS, p.Acc(s, 0), p.Add(p.Acc(s, 1), lo), p.Sub(hi, lo), p.Sub(capT, lo))
	case *types.Pointer: // pointer to array
		arr, ok := xt.Elem().Underlying().(*types.Array)
		if !ok {
			ex.fail("slice of %s", in.X.Type())
		}
		if isHashType(xt.Elem()) || isAddrType(xt.Elem()) {
			// bytes of an abstract hash / address value: a fresh read-only copy holding hb(h)
			n := p.Int(arr.Len())
			if in.High != nil {
				hi = ex.term(st, in.High)
			} else {
				hi = n
			}
			ex.oblige(st, "nopanic.slice", "slice bounds in range", p.And(p.Le(p.Int(0), lo), p.Le(lo, hi), p.Le(hi, n)), pos)
			ptr := ex.asPtr(ex.val(st, in.X), xt.Elem())
			h := ex.load(st, ptr, xt.Elem(), pos)
			ref := ex.freshRef(st)
			name := "[]" + shortTypeName(arr.Elem())
			rs := p.ArraySort(IntSort, p.ArraySort(IntSort, IntSort))
			r := ex.getRegion(st, name, rs)
			st.heap[name] = p.Store(r, ref, ex.bytesOfAbstract(h))
			ex.sliceOrigin[ref] = ptr
			ex.assumptions["slice of a hash/address value is modelled as a copy of its bytes; only copy() through the whole slice is written back"] = true
			return p.Mk(ex.tm.SliceS, ref, lo, p.Sub(hi, lo), p.Sub(n, lo))
		}
		n := p.Int(arr.Len())
		if in.High != nil {
			hi = ex.term(st, in.High)
		} else {
			hi = n
		}
		ex.oblige(st, "nopanic.slice", "slice bounds in range", p.And(p.Le(p.Int(0), lo), p.Le(lo, hi), p.Le(hi, n)), pos)
		ptr := ex.asPtr(ex.val(st, in.X), xt.Elem())
		var ref *Term
		if ptr.Kind == PBacking && len(ptr.Path) == 0 {
			ref = ptr.Ref
		} else {
			// array living inside a struct or a local: copy-out model (aliasing through the slice is not tracked)
			ref = ex.freshRef(st)
			name := "[]" + shortTypeName(arr.Elem())
			rs := p.ArraySort(IntSort, p.ArraySort(IntSort, ex.tm.SortOf(arr.Elem())))
			r := ex.getRegion(st, name, rs)
			cur := ex.load(st, ptr, xt.Elem(), pos)
			st.heap[name] = p.Store(r, ref, cur)
			ex.assumptions["slice of an embedded/local array is modelled as a copy (writes through the slice are not reflected back)"] = true
		}
		return p.Mk(ex.tm.SliceS, ref, lo, p.Sub(hi, lo), p.Sub(n, lo))
	case *types.Basic: // string
		s := ex.term(st, in.X)
		if in.High != nil {
			hi = ex.term(st, in.High)
		} else {
			hi = ex.strlen(s)
		}
		ex.oblige(st, "nopanic.slice", "string slice bounds in range", p.And(p.Le(p.Int(0), lo), p.Le(lo, hi), p.Le(hi, ex.strlen(s))), pos)
		f := p.Func("substr", []*Sort{ex.tm.StrS, IntSort, IntSort}, ex.tm.StrS)
		r := p.App(f, s, lo, hi)
		ex.facts = append(ex.facts, p.Implies(p.And(p.Le(p.Int(0), lo), p.Le(lo, hi)), p.Eq(ex.strlen(r), p.Sub(hi, lo))))
		return r
	}
	ex.fail("slice of %s", in.X.Type())
	return nil
}

// ------------------------------------------------------------------ maps (value model keyed by reference)

func (ex *Exec) mapRegions(st *State, mt *types.Map) (string, string, *Sort, *Sort) {
	p := ex.p
	ks, vs := ex.tm.SortOf(mt.Key()), ex.tm.SortOf(mt.Elem())
	base := "map[" + shortTypeName(mt.Key()) + "]" + shortTypeName(mt.Elem())
	return base + ".val", base + ".has", p.ArraySort(IntSort, p.ArraySort(ks, vs)), p.ArraySort(IntSort, p.ArraySort(ks, BoolSort))
}

func (ex *Exec) mapUpdate(st *State, in *ssa.MapUpdate, pos string) {
	p := ex.p
	mt := in.Map.Type().Underlying().(*types.Map)
	m := ex.term(st, in.Map)
	k := ex.term(st, in.Key)
	v := ex.storable(st, in.Value)
	ex.oblige(st, "nopanic.nil", "assignment to entry in nil map", p.Not(p.Eq(m, p.Int(0))), pos)
	vn, hn, vs, hs := ex.mapRegions(st, mt)
	vr := ex.getRegion(st, vn, vs)
	hr := ex.getRegion(st, hn, hs)
	st.heap[vn] = p.Store(vr, m, p.Store(p.Select(vr, m), k, v))
	st.heap[hn] = p.Store(hr, m, p.Store(p.Select(hr, m), k, p.True()))
	ex.frameCheck(st, vn, m, pos)
}

func (ex *Exec) lookup(st *State, in *ssa.Lookup, pos string) {
	p := ex.p
	mt, ok := in.X.Type().Underlying().(*types.Map)
	if !ok {
		ex.fail("lookup on string at %s", pos)
	}
	m := ex.term(st, in.X)
	k := ex.term(st, in.Index)
	vn, hn, vs, hs := ex.mapRegions(st, mt)
	vr := ex.getRegion(st, vn, vs)
	hr := ex.getRegion(st, hn, hs)
	has := p.And(p.Not(p.Eq(m, p.Int(0))), p.Select(p.Select(hr, m), k))
	v := p.Ite(has, p.Select(p.Select(vr, m), k), ex.tm.Zero(mt.Elem()))
	ex.facts = append(ex.facts, ex.tm.InRange(v, mt.Elem(), 0))
	if in.CommaOk {
		st.vals[in] = TupleV{v, has}
	} else {
		st.vals[in] = v
	}
}

// ------------------------------------------------------------------ channels (ghost sent-sequences)

func (ex *Exec) send(st *State, in *ssa.Send, pos string) {
	p := ex.p
	ch := ex.term(st, in.Chan)
	v := ex.storable(st, in.X)
	el := in.Chan.Type().Underlying().(*types.Chan).Elem()
	es := ex.tm.SortOf(el)
	base := "chan:" + shortTypeName(el)
	sr := ex.getRegion(st, base+".sent", p.ArraySort(IntSort, p.ArraySort(IntSort, es)))
	nr := ex.getRegion(st, base+".nsent", p.ArraySort(IntSort, IntSort))
	n := p.Select(nr, ch)
	ex.facts = append(ex.facts, p.Ge(n, p.Int(0)))
	st.heap[base+".sent"] = p.Store(sr, ch, p.Store(p.Select(sr, ch), n, v))
	st.heap[base+".nsent"] = p.Store(nr, ch, p.Add(n, p.Int(1)))
}

// countRecv: one more value received from ch (ghost counter nrecv(ch)); when is the condition under which it happened
func (ex *Exec) countRecv(st *State, chv ssa.Value, when *Term) {
	p := ex.p
	el := chv.Type().Underlying().(*types.Chan).Elem()
	base := "chan:" + shortTypeName(el)
	ch := ex.term(st, chv)
	nr := ex.getRegion(st, base+".nrecv", p.ArraySort(IntSort, IntSort))
	n := p.Select(nr, ch)
	ex.facts = append(ex.facts, p.Ge(n, p.Int(0)))
	upd := p.Store(nr, ch, p.Add(n, p.Int(1)))
	if when != nil {
		upd = p.Ite(when, upd, nr)
	}
	st.heap[base+".nrecv"] = upd
}

func (ex *Exec) recv(st *State, in *ssa.UnOp, pos string) Val {
	p := ex.p
	el := in.X.Type().Underlying().(*types.Chan).Elem()
	ex.countRecv(st, in.X, nil)
	v := p.Fresh("recv", ex.tm.SortOf(el))
	ex.facts = append(ex.facts, ex.tm.InRange(v, el, 0))
	if in.CommaOk {
		return TupleV{v, p.Fresh("recvok", BoolSort)}
	}
	return v
}

func (ex *Exec) selectInstr(st *State, in *ssa.Select, pos string) {
	p := ex.p
	// result: (index int, recvOk bool, r_0 T_0, ...)
	n := len(in.States)
	idx := p.Fresh("select", IntSort)
	lo := int64(0)
	if !in.Blocking {
		lo = -1
	}
	ex.assume(st, p.And(p.Le(p.Int(lo), idx), p.Lt(idx, p.Int(int64(n)))))
	res := TupleV{idx, p.Fresh("recvok", BoolSort)}
	for i, s := range in.States {
		if s.Dir == types.RecvOnly {
			el := s.Chan.Type().Underlying().(*types.Chan).Elem()
			v := p.Fresh("recv", ex.tm.SortOf(el))
			ex.facts = append(ex.facts, ex.tm.InRange(v, el, 0))
			res = append(res, v)
			ex.countRecv(st, s.Chan, p.Eq(idx, p.Int(int64(i))))
			// a case that fires on ctx.Done() is an observation that the context has ended: recorded in the ghost
			// variable ctxEnded where a contract declares it (the choice among the cases stays free)
			if c, ok := s.Chan.(*ssa.Call); ok && c.Call.IsInvoke() && c.Call.Method.Name() == "Done" {
				if _, declared := ex.P.CS.Ghosts["ctxEnded"]; declared {
					st.ghost["ctxEnded"] = p.Ite(p.Eq(idx, p.Int(int64(i))), p.True(), ex.ghostVar(st, "ctxEnded"))
				}
			}
		} else {
			// a send that is chosen appends to the ghost sequence
			ch := ex.term(st, s.Chan)
			v := ex.storable(st, s.Send)
			el := s.Chan.Type().Underlying().(*types.Chan).Elem()
			es := ex.tm.SortOf(el)
			base := "chan:" + shortTypeName(el)
			sr := ex.getRegion(st, base+".sent", p.ArraySort(IntSort, p.ArraySort(IntSort, es)))
			nr := ex.getRegion(st, base+".nsent", p.ArraySort(IntSort, IntSort))
			nn := p.Select(nr, ch)
			chosen := p.Eq(idx, p.Int(int64(i)))
			st.heap[base+".sent"] = p.Ite(chosen, p.Store(sr, ch, p.Store(p.Select(sr, ch), nn, v)), sr)
			st.heap[base+".nsent"] = p.Ite(chosen, p.Store(nr, ch, p.Add(nn, p.Int(1))), nr)
		}
	}
	st.vals[in] = res
}

// ------------------------------------------------------------------ calls

var opaquePkgs = []string{"fmt", "log", "time", "strings", "strconv", "errors", "os", "runtime", "sync", "sync/atomic", "context",
	"github.com/agglayer/aggkit/log", "go.uber.org/zap", "github.com/prometheus", "github.com/agglayer/aggkit/prometheus",
	"github.com/hermeznetwork/tracerr", "math/rand", "encoding/hex", "encoding/json", "github.com/agglayer/aggkit/aggsender/metrics", "github.com/ethereum/go-ethereum/common/hexutil"}

func (ex *Exec) isOpaqueFn(fn *ssa.Function) bool {
	if fn == nil {
		return false
	}
	name := fn.String()
	for _, pat := range ex.P.CS.OpaquePats {
		if matchPat(pat, name) {
			return true
		}
	}
	pkg := ""
	if fn.Pkg != nil {
		pkg = fn.Pkg.Pkg.Path()
	} else if fn.Signature.Recv() != nil {
		// method of an external type
		t := fn.Signature.Recv().Type()
		if pt, ok := t.(*types.Pointer); ok {
			t = pt.Elem()
		}
		if n, ok := types.Unalias(t).(*types.Named); ok && n.Obj().Pkg() != nil {
			pkg = n.Obj().Pkg().Path()
		}
	}
	for _, o := range opaquePkgs {
		if pkg == o || strings.HasPrefix(pkg, o+"/") {
			return true
		}
	}
	// String()/Hex()/Error() style formatters
	switch fn.Name() {
	case "String", "Hex", "Error", "TerminalString", "GoString":
		if fn.Signature.Params().Len() == 0 {
			return true
		}
	}
	return false
}

func matchPat(pat, name string) bool {
	if strings.HasSuffix(pat, "*") {
		return strings.HasPrefix(name, strings.TrimSuffix(pat, "*"))
	}
	return pat == name
}

func (ex *Exec) isOpaqueInvoke(cc *ssa.CallCommon) bool {
	it := cc.Value.Type()
	name := shortTypeName(it)
	m := cc.Method.Name()
	if strings.HasSuffix(name, "Logger") || strings.HasSuffix(name, ".Logger") {
		return true
	}
	if name == "error" && m == "Error" {
		return true
	}
	if name == "context.Context" {
		return true
	}
	switch m {
	case "String", "Error":
		if cc.Signature().Params().Len() == 0 {
			return true
		}
	}
	key := ifaceKey(cc)
	for _, pat := range ex.P.CS.OpaquePats {
		if matchPat(pat, key) {
			return true
		}
	}
	return false
}

func ifaceKey(cc *ssa.CallCommon) string {
	t := types.Unalias(cc.Value.Type())
	if n, ok := t.(*types.Named); ok && n.Obj().Pkg() != nil {
		return n.Obj().Pkg().Path() + "." + n.Obj().Name() + "." + cc.Method.Name()
	}
	return shortTypeName(t) + "." + cc.Method.Name()
}

// ifaceContractAt: a contract written for one call site (interface <iface>.<method>@<caller>) takes precedence there.
// resolveSameAs: an interface-method contract declared "sameas <implementation>" is that implementation's contract
// with the interface contract's parameter names (the production implementation is assumed to be the dynamic callee).
func (ex *Exec) resolveSameAs(c *FuncContract) *FuncContract {
	if c == nil || c.SameAs == "" {
		return c
	}
	t, ok := ex.P.CS.Funcs[c.SameAs]
	if !ok {
		ex.fail("interface contract %s: sameas target %s has no contract", c.Key, c.SameAs)
	}
	t.Used = true
	cp := *t
	cp.Params = c.Params
	cp.Key = c.Key
	cp.Behaviors = nil
	if fn := ex.P.FindFunc(t.PkgPath, t.Key); fn != nil && fn.Signature.Recv() != nil {
		cp.RecvType = fn.Signature.Recv().Type()
	}
	ex.assumptions["calls through "+c.Key+" reach "+c.SameAs+" (its proved contract is used at the call site)"] = true
	return &cp
}

func (ex *Exec) ifaceContractAt(cc *ssa.CallCommon, caller *ssa.Function) (*FuncContract, bool) {
	if caller != nil && caller.Pkg != nil && cc.Method != nil {
		at := "@" + caller.Pkg.Pkg.Name() + "." + caller.RelString(caller.Pkg.Pkg)
		suffix := "." + cc.Method.Name() + at
		for k, c := range ex.P.CS.Ifaces {
			if !strings.HasSuffix(k, suffix) {
				continue
			}
			if k == ifaceKey(cc)+at {
				return ex.resolveSameAs(c), true
			}
			if it := ex.lookupIface(strings.TrimSuffix(k, suffix)); it != nil {
				for i := 0; i < it.NumMethods(); i++ {
					if it.Method(i) == cc.Method {
						return ex.resolveSameAs(c), true
					}
				}
			}
		}
	}
	return ex.resolveSameAs(ex.ifaceContract(cc)), false
}

func (ex *Exec) ifaceContract(cc *ssa.CallCommon) *FuncContract {
	if c, ok := ex.P.CS.Ifaces[ifaceKey(cc)]; ok {
		return c
	}
	// the method may be declared in an embedded interface, or a contract may be written on an interface that
	// embeds the static one: look for a contract on any interface declaring / containing this method object
	if cc.Method != nil {
		if sig, ok := cc.Method.Type().(*types.Signature); ok && sig.Recv() != nil {
			if n, ok := types.Unalias(sig.Recv().Type()).(*types.Named); ok && n.Obj().Pkg() != nil {
				k := n.Obj().Pkg().Path() + "." + n.Obj().Name() + "." + cc.Method.Name()
				if c, ok := ex.P.CS.Ifaces[k]; ok {
					return c
				}
			}
		}
		suffix := "." + cc.Method.Name()
		var found *FuncContract
		for k, c := range ex.P.CS.Ifaces {
			if !strings.HasSuffix(k, suffix) {
				continue
			}
			it := ex.lookupIface(strings.TrimSuffix(k, suffix))
			if it == nil {
				continue
			}
			for i := 0; i < it.NumMethods(); i++ {
				if it.Method(i) == cc.Method {
					if found != nil && found != c {
						return nil // ambiguous
					}
					found = c
				}
			}
		}
		return found
	}
	return nil
}

// lookupIface resolves "pkgpath.Name" to an interface type among the loaded packages.
func (ex *Exec) lookupIface(full string) *types.Interface {
	i := strings.LastIndex(full, ".")
	if i < 0 {
		return nil
	}
	path, name := full[:i], full[i+1:]
	for _, pp := range ex.P.PPkg {
		var pk *types.Package
		if pp.Types.Path() == path {
			pk = pp.Types
		} else {
			for _, imp := range pp.Types.Imports() {
				if imp.Path() == path {
					pk = imp
				}
			}
		}
		if pk != nil {
			if tn, ok := pk.Scope().Lookup(name).(*types.TypeName); ok {
				if it, ok := tn.Type().Underlying().(*types.Interface); ok {
					return it
				}
			}
			return nil
		}
	}
	return nil
}

func (ex *Exec) setResult(st *State, instr *ssa.Call, v Val) {
	if instr != nil {
		st.vals[instr] = v
	}
}

// freshResults creates unconstrained results for a signature.
func (ex *Exec) freshResults(st *State, sig *types.Signature, hint string) Val {
	res := sig.Results()
	mk := func(t types.Type, i int) *Term {
		if _, isSlice := t.Underlying().(*types.Slice); isSlice {
			nm := fmt.Sprintf("ret:%s.%d", hint, i)
			v := ex.p.Mk(ex.tm.SliceS, ex.p.Fresh(nm+".ref", IntSort), ex.p.Fresh(nm+".off", IntSort), ex.p.Fresh(nm+".len", IntSort), ex.p.Fresh(nm+".cap", IntSort))
			ex.facts = append(ex.facts, ex.tm.InRange(v, t, 0))
			return v
		}
		v := ex.p.Fresh(fmt.Sprintf("ret:%s.%d", hint, i), ex.tm.SortOf(t))
		ex.facts = append(ex.facts, ex.tm.InRange(v, t, 0))
		return v
	}
	switch res.Len() {
	case 0:
		return TupleV{}
	case 1:
		return mk(res.At(0).Type(), 0)
	}
	out := make(TupleV, res.Len())
	for i := range out {
		out[i] = mk(res.At(i).Type(), i)
	}
	return out
}

func (ex *Exec) doCall(fr *frame, st *State, cc *ssa.CallCommon, fnv Val, args []Val, instr *ssa.Call, tpos token.Pos) {
	pos := ex.P.pos(tpos)
	if args == nil {
		args = make([]Val, len(cc.Args))
		for i, a := range cc.Args {
			args[i] = ex.val(st, a)
		}
	}
	if b, ok := cc.Value.(*ssa.Builtin); ok {
		ex.setResult(st, instr, ex.builtin(st, b, cc, args, pos))
		return
	}
	ex.callSiteAsserts(fr, st, cc, instr, pos)
	if cc.IsInvoke() {
		recv := fnv
		if recv == nil {
			recv = ex.val(st, cc.Value)
		}
		rt, err := ex.ptrTerm(recv)
		if err != nil {
			ex.fail("%v", err)
		}
		allowedInvoke := false
		if ex.topC != nil {
			for _, a := range ex.topC.Allow {
				if cc.Method.Name() == a {
					allowedInvoke = true
				}
			}
		}
		if ex.topC != nil && ex.topC.NoCalls && ex.noOblige == 0 && !ex.isOpaqueInvoke(cc) && !allowedInvoke {
			ex.oblige(st, "call.unreachable", "call to "+ifaceKey(cc)+" must not be reached", ex.p.False(), pos)
			ex.havocAllQuiet(st)
			ex.setResult(st, instr, ex.freshResults(st, cc.Signature(), cc.Method.Name()))
			return
		}
		if c, atSite := ex.ifaceContractAt(cc, fr.fn); c != nil {
			names := append([]string(nil), c.Params...)
			if len(names) == 0 {
				names = []string{"self"}
				for i := 0; i < cc.Signature().Params().Len(); i++ {
					names = append(names, cc.Signature().Params().At(i).Name())
				}
			}
			all := append([]Val{rt}, args...)
			ptypes := []types.Type{cc.Value.Type()}
			if c.RecvType != nil {
				ptypes[0] = c.RecvType
			}
			for i := 0; i < cc.Signature().Params().Len(); i++ {
				ptypes = append(ptypes, cc.Signature().Params().At(i).Type())
			}
			if atSite {
				for len(names) < len(ptypes) {
					names = append(names, "_")
				}
				for _, cp := range fr.fn.Params {
					if v, ok := st.vals[cp]; ok {
						names = append(names, "caller."+cp.Name())
						ptypes = append(ptypes, cp.Type())
						all = append(all, v)
					}
				}
			}
			ex.setResult(st, instr, ex.contractCall(fr, st, c, ifaceKey(cc), cc.Signature(), names, ptypes, all, pos))
			return
		}
		if ex.isOpaqueInvoke(cc) {
			ex.assumptions["opaque (no effect, unconstrained result): "+ifaceKey(cc)] = true
			ex.setResult(st, instr, ex.freshResults(st, cc.Signature(), cc.Method.Name()))
			return
		}
		ex.assumptions["havoc (no contract): "+ifaceKey(cc)] = true
		ex.havocCall(st, pos, ifaceKey(cc))
		ex.setResult(st, instr, ex.freshResults(st, cc.Signature(), cc.Method.Name()))
		return
	}
	callee := cc.StaticCallee()
	var bind []Val
	if callee == nil {
		v := fnv
		if v == nil {
			v = ex.val(st, cc.Value)
		}
		if c, ok := v.(*ClosureV); ok {
			callee, bind = c.Fn, c.Bind
		} else if t, ok := v.(*Term); ok {
			if alts, ok := ex.condClosures[t]; ok && len(alts) == 1 {
				c := alts[0].v.(*ClosureV)
				callee, bind = c.Fn, c.Bind
			} else if ok && len(alts) > 1 && len(alts) <= 4 {
				// a small set of known closures selected by path: run each under its condition and merge
				var sts []*State
				var results []Val
				allKnown := true
				for _, a := range alts {
					if _, isC := a.v.(*ClosureV); !isC {
						allKnown = false
					}
				}
				if allKnown {
					for _, a := range alts {
						c := a.v.(*ClosureV)
						s2 := st.fork()
						s2.pc = ex.p.And(st.pc, a.c)
						if s2.pc.IsFalse() {
							continue
						}
						tmpCC := *cc
						ex.callKnown(fr, s2, &tmpCC, c.Fn, c.Bind, args, pos, func(v Val) { results = append(results, v) })
						sts = append(sts, s2)
					}
					if len(sts) == 0 {
						st.pc = ex.p.False()
						ex.setResult(st, instr, ex.freshResults(st, cc.Signature(), "dyn"))
						return
					}
					res := results[0]
					for i := 1; i < len(sts); i++ {
						m, err := ex.mergeVals(sts[i].pc, results[i], res)
						if err != nil {
							ex.fail("dynamic call: %v", err)
						}
						res = m
					}
					m, err := ex.merge(sts)
					if err != nil {
						ex.fail("dynamic call: %v", err)
					}
					*st = *m
					ex.setResult(st, instr, res)
					return
				}
			}
		}
		if callee == nil && cc.Value != nil && !cc.IsInvoke() && ex.topC != nil && ex.topC.NilCalls {
			// calling a nil function value panics (checked where the contract asks for it: `nilcalls`)
			if fv, ok := st.vals[cc.Value]; ok {
				if ft, isTerm := fv.(*Term); isTerm && ft.Sort.Kind == SInt {
					ex.oblige(st, "nopanic.nilfunc", "call of a nil function value", ex.p.Not(ex.p.Eq(ft, ex.p.Int(0))), pos)
				}
			}
		}
		if callee == nil && cc.Value != nil {
			// a contract written for every function value of this function type ("interface functype:<sig> (params)")
			if sig, ok := cc.Value.Type().Underlying().(*types.Signature); ok {
				c, ok := ex.P.CS.Ifaces["functype:"+sigKey(sig)]
				if fr.fn != nil && fr.fn.Pkg != nil {
					// a contract for the function values called inside one function only ("functype:<sig>@pkg.(*T).caller")
					at := "@" + fr.fn.Pkg.Pkg.Name() + "." + fr.fn.RelString(fr.fn.Pkg.Pkg)
					if ca, okAt := ex.P.CS.Ifaces["functype:"+sigKey(sig)+at]; okAt {
						c, ok = ca, true
					}
				}
				if ok {
					names := append([]string(nil), c.Params...)
					var ptypes []types.Type
					for i := 0; i < sig.Params().Len(); i++ {
						ptypes = append(ptypes, sig.Params().At(i).Type())
						if i >= len(names) {
							names = append(names, sig.Params().At(i).Name())
						}
					}
					ex.assumptions["function values of type "+sigKey(sig)+" obey the contract written for that type"] = true
					ex.setResult(st, instr, ex.contractCall(fr, st, c, "functype:"+sigKey(sig), sig, names, ptypes, args, pos))
					return
				}
			}
		}
		if callee == nil && cc.Value != nil && cc.Value.Type().String() == "context.CancelFunc" {
			// cancelling a context has no effect on the modelled state
			ex.assumptions["context cancel functions have no modelled effect"] = true
			ex.setResult(st, instr, TupleV{})
			return
		}
		if callee == nil {
			ex.assumptions["havoc (dynamic call): "+pos] = true
			ex.havocCall(st, pos, "dynamic call")
			ex.setResult(st, instr, ex.freshResults(st, cc.Signature(), "dyn"))
			return
		}
	} else if mc, ok := cc.Value.(*ssa.MakeClosure); ok {
		c := ex.val(st, mc).(*ClosureV)
		bind = c.Bind
	}
	ex.callKnown(fr, st, cc, callee, bind, args, pos, func(v Val) { ex.setResult(st, instr, v) })
}

// callKnown dispatches a call whose target function is known.
func (ex *Exec) callKnown(fr *frame, st *State, cc *ssa.CallCommon, callee *ssa.Function, bind []Val, args []Val, pos string, setRes func(Val)) {
	c, atSite := ex.P.ContractForAt(callee, fr.fn)
	if ex.topC != nil && ex.topC.NoCalls && ex.noOblige == 0 && !(ex.isOpaqueFn(callee) && c == nil) {
		allowed := callee.Synthetic != ""
		for _, a := range ex.topC.Allow {
			if callee.Name() == a {
				allowed = true
			}
		}
		if !allowed {
			ex.oblige(st, "call.unreachable", "call to "+ex.fnName(callee)+" must not be reached", ex.p.False(), pos)
			setRes(ex.freshResults(st, callee.Signature, callee.Name()))
			ex.havocAllQuiet(st)
			return
		}
	}
	switch {
	case c != nil && !c.Inline:
		names, ptypes := sigNames(callee, c)
		if atSite {
			// call-site contract: the caller's parameters are visible as caller.<name>
			for _, cp := range fr.fn.Params {
				if v, ok := st.vals[cp]; ok {
					names = append(names, "caller."+cp.Name())
					ptypes = append(ptypes, cp.Type())
					args = append(args, v)
				}
			}
		}
		setRes(ex.contractCall(fr, st, c, ex.fnName(callee), callee.Signature, names, ptypes, args, pos))
	case ex.isOpaqueFn(callee) && c == nil && atomicWrite(callee):
		// a store through sync/atomic is a write to the program's own memory: not "no effect". Without a contract it
		// is treated like any unknown callee (frame obligation unless the function may modify the heap; state havocked)
		ex.assumptions["havoc (sync/atomic write, no contract): "+callee.String()] = true
		ex.havocCall(st, pos, callee.String())
		setRes(ex.freshResults(st, callee.Signature, callee.Name()))
	case ex.isOpaqueFn(callee) && c == nil:
		ex.assumptions["opaque (no effect, unconstrained result): "+callee.String()] = true
		r := ex.freshResults(st, callee.Signature, callee.Name())
		// constructors of errors return non-nil
		switch callee.String() {
		case "fmt.Errorf", "errors.New":
			// a newly allocated error value: non-nil and different from every reference that existed before
			ex.facts = append(ex.facts, ex.p.Gt(r.(*Term), ex.p.Int(0)))
			ex.assume(st, ex.p.Ge(r.(*Term), st.heapTop))
			st.heapTop = ex.p.Add(r.(*Term), ex.p.Int(1))
			ex.errFresh(st, r.(*Term))
			ex.errWraps(st, cc, r.(*Term))
		}
		setRes(r)
	case callee.Blocks != nil && ex.canInline(callee):
		setRes(ex.inlineCall(st, callee, args, bind, pos))
	default:
		ex.assumptions["havoc (no contract): "+callee.String()] = true
		ex.havocCall(st, pos, callee.String())
		setRes(ex.freshResults(st, callee.Signature, callee.Name()))
	}
}

// errWraps states what errors.Is answers for an error built by errors.New / fmt.Errorf with a constant format:
// Is(r, s) holds exactly for s == r and, for each operand formatted with %w, for every s that operand answers to.
// (An error built without %w wraps nothing.) Formats that are not constants, or whose operands cannot be read off
// the variadic slice, leave the new error unconstrained as before.
func (ex *Exec) errWraps(st *State, cc *ssa.CallCommon, r *Term) {
	p := ex.p
	var wrapped []*Term
	if cc.StaticCallee().String() == "fmt.Errorf" {
		if len(cc.Args) != 2 {
			return
		}
		k, ok := cc.Args[0].(*ssa.Const)
		if !ok || k.Value == nil || k.Value.Kind() != constant.String {
			return
		}
		format := constant.StringVal(k.Value)
		// verbs in order; %% is not a verb; flags/width are not used with %w in practice but are skipped anyway
		var verbs []byte
		for i := 0; i < len(format); i++ {
			if format[i] != '%' {
				continue
			}
			i++
			for i < len(format) && strings.IndexByte("+-# 0123456789.[]*", format[i]) >= 0 {
				if format[i] == '[' || format[i] == '*' {
					return // explicit argument indexes: not modelled
				}
				i++
			}
			if i < len(format) && format[i] != '%' {
				verbs = append(verbs, format[i])
			}
		}
		nw := 0
		for _, v := range verbs {
			if v == 'w' {
				nw++
			}
		}
		if nw > 0 {
			elems := variadicElems(cc.Args[1])
			if elems == nil || len(elems) != len(verbs) {
				return
			}
			for i, v := range verbs {
				if v != 'w' {
					continue
				}
				e := elems[i]
				for {
					if mi, ok := e.(*ssa.MakeInterface); ok {
						e = mi.X
						continue
					}
					if ci, ok := e.(*ssa.ChangeInterface); ok {
						e = ci.X
						continue
					}
					break
				}
				if !types.Identical(e.Type(), types.Universe.Lookup("error").Type()) {
					return
				}
				t, ok := ex.val(st, e).(*Term)
				if !ok || t.Sort.Kind != SInt {
					return
				}
				wrapped = append(wrapped, t)
			}
		}
	}
	f := p.Func("isErr", []*Sort{IntSort, IntSort}, BoolSort)
	sv := p.BoundVar("s!err", IntSort)
	rhs := []*Term{p.Eq(sv, r)}
	for _, w := range wrapped {
		rhs = append(rhs, p.And(p.Not(p.Eq(w, p.Int(0))), p.Or(p.Eq(sv, w), p.App(f, w, sv))))
	}
	ex.facts = append(ex.facts, p.Forall([]*Term{sv}, p.Eq(p.App(f, r, sv), p.Or(rhs...)), []*Term{p.App(f, r, sv)}))
	ex.assumptions["errors.Is on an error built by errors.New / fmt.Errorf follows the %w operands of the constant format (nothing else is wrapped)"] = true
}

// variadicElems reads the operands of a variadic call off the slice literal go/ssa builds for them
// (new [n]T; &a[i]; store; slice a[:]); nil when the slice is not such a literal.
func variadicElems(v ssa.Value) []ssa.Value {
	if k, ok := v.(*ssa.Const); ok && k.Value == nil {
		return []ssa.Value{}
	}
	sl, ok := v.(*ssa.Slice)
	if !ok || sl.Low != nil || sl.High != nil {
		return nil
	}
	al, ok := sl.X.(*ssa.Alloc)
	if !ok {
		return nil
	}
	arr, ok := al.Type().Underlying().(*types.Pointer).Elem().Underlying().(*types.Array)
	if !ok {
		return nil
	}
	out := make([]ssa.Value, arr.Len())
	for _, ref := range *al.Referrers() {
		ia, ok := ref.(*ssa.IndexAddr)
		if !ok {
			continue
		}
		k, ok := ia.Index.(*ssa.Const)
		if !ok {
			return nil
		}
		idx := int(k.Int64())
		for _, r2 := range *ia.Referrers() {
			if stv, ok := r2.(*ssa.Store); ok && stv.Addr == ia {
				if idx < 0 || idx >= len(out) || out[idx] != nil {
					return nil
				}
				out[idx] = stv.Val
			}
		}
	}
	for _, e := range out {
		if e == nil {
			return nil
		}
	}
	return out
}

// atomicWrite: the functions and methods of sync/atomic that write (everything but the loads)
func atomicWrite(fn *ssa.Function) bool {
	if fn.Pkg == nil || fn.Pkg.Pkg.Path() != "sync/atomic" {
		if o := fn.Origin(); o == nil || o.Pkg == nil || o.Pkg.Pkg.Path() != "sync/atomic" {
			return false
		}
	}
	n := fn.Name()
	for _, pre := range []string{"Store", "Swap", "Add", "CompareAndSwap", "And", "Or"} {
		if strings.HasPrefix(n, pre) {
			return true
		}
	}
	return false
}

// errFresh: a freshly created error is none of the sentinels (unless wrapping, which isErr handles separately).
func (ex *Exec) errFresh(st *State, e *Term) {
	ex.freshErrs = append(ex.freshErrs, e)
}

func (ex *Exec) havocAllQuiet(st *State) {
	ex.havocAll(st)
	for k, v := range st.ghost {
		st.ghost[k] = ex.p.Fresh("ghost:"+k, v.Sort)
	}
}

func (ex *Exec) havocCall(st *State, pos, what string) {
	if ex.frameOn {
		whole := false
		for _, m := range ex.modSet {
			if m.region == "*" {
				whole = true // modifies heap: an unknown callee may touch the heap (ghost variables stay put)
			}
		}
		if !whole {
			ex.oblige(st, "frame.call", "call without contract may modify anything: "+what, ex.p.False(), pos)
		}
	}
	ex.havocAll(st)
	for k, v := range st.ghost {
		_ = v
		_ = k
	}
}

func sigNames(fn *ssa.Function, c *FuncContract) ([]string, []types.Type) {
	var names []string
	var ts []types.Type
	if len(fn.Params) > 0 {
		for _, p := range fn.Params {
			names = append(names, p.Name())
			ts = append(ts, p.Type())
		}
	} else {
		sig := fn.Signature
		if sig.Recv() != nil {
			names = append(names, sig.Recv().Name())
			ts = append(ts, sig.Recv().Type())
		}
		for i := 0; i < sig.Params().Len(); i++ {
			names = append(names, sig.Params().At(i).Name())
			ts = append(ts, sig.Params().At(i).Type())
		}
	}
	if c != nil && len(c.Params) > 0 {
		for i := range names {
			if i < len(c.Params) {
				names[i] = c.Params[i]
			}
		}
	}
	return names, ts
}

func (ex *Exec) canInline(fn *ssa.Function) bool {
	if len(ex.inlineStack) >= 6 {
		return false
	}
	for _, f := range ex.inlineStack {
		if f == fn {
			return false
		}
	}
	if fn.Synthetic != "" && fn.Blocks != nil {
		return true // bound-method / promoted-method wrappers
	}
	if fn.Pkg == nil || !strings.HasPrefix(fn.Pkg.Pkg.Path(), modPrefix) {
		// closures of repo functions have Pkg set too; external bodies are not loaded
		return fn.Blocks != nil && fn.Parent() != nil
	}
	return true
}

func (ex *Exec) inlineCall(st *State, fn *ssa.Function, args []Val, bind []Val, pos string) Val {
	ex.inlineStack = append(ex.inlineStack, fn)
	defer func() { ex.inlineStack = ex.inlineStack[:len(ex.inlineStack)-1] }()
	fr := &frame{fn: fn, loops: ex.P.Loops(fn), fc: ex.P.ContractFor(fn)}
	if len(args) != len(fn.Params) {
		ex.fail("inline %s: %d args for %d params", fn, len(args), len(fn.Params))
	}
	for i, p := range fn.Params {
		st.vals[p] = args[i]
	}
	for i, fv := range fn.FreeVars {
		if i < len(bind) {
			st.vals[fv] = bind[i]
		}
	}
	saved := st.defers
	st.defers = nil
	ex.runBody(fr, st)
	if len(fr.rets) == 0 {
		st.pc = ex.p.False()
		return ex.freshResults(st, fn.Signature, fn.Name())
	}
	var sts []*State
	for _, r := range fr.rets {
		sts = append(sts, r.st)
	}
	// merge results first (conditions are the return states' pcs)
	nres := fn.Signature.Results().Len()
	results := make([]Val, nres)
	for i := 0; i < nres; i++ {
		cur := fr.rets[0].vals[i]
		for _, r := range fr.rets[1:] {
			m, err := ex.mergeVals(r.st.pc, r.vals[i], cur)
			if err != nil {
				ex.fail("inline %s: %v", fn.Name(), err)
			}
			cur = m
		}
		results[i] = cur
	}
	m, err := ex.merge(sts)
	if err != nil {
		ex.fail("inline %s: %v", fn.Name(), err)
	}
	*st = *m
	st.defers = saved
	switch nres {
	case 0:
		return TupleV{}
	case 1:
		return results[0]
	}
	return TupleV(results)
}

// contractCall: assert requires, havoc modifies, assume ensures.
func (ex *Exec) contractCall(fr *frame, st *State, c *FuncContract, name string, sig *types.Signature, names []string, ptypes []types.Type, args []Val, pos string) Val {
	if len(c.Behaviors) > 0 {
		return ex.contractCallBehaviors(fr, st, c, name, sig, names, ptypes, args, pos)
	}
	p := ex.p
	c.Used = true
	if c.LazySpecs {
		ex.noExpand++
		defer func() { ex.noExpand-- }()
	}
	if c.Trusted {
		ex.assumptions["assumed contract: "+name] = true
	}
	vars := map[string]tv{}
	for i, n := range names {
		if i < len(args) && n != "" && n != "_" {
			vars[n] = tv{args[i], ptypes[i]}
		}
	}
	ctx := &EvalCtx{ex: ex, st: st, vars: vars, pkgPath: c.PkgPath}
	base := "call[" + name + "]"
	for i, r := range c.Requires {
		g := ex.evalBool(ctx, r)
		o := ex.oblige(st, base+".pre", fmt.Sprintf("precondition %d of %s: %s", i, name, r.Text), g, pos)
		if o != nil {
			o.Clause = r
		}
	}
	var guard *Term
	if ex.noOblige > 0 {
		// spec context: the postcondition is only assumed under the precondition
		var gs []*Term
		for _, r := range c.Requires {
			gs = append(gs, ex.evalBool(ctx, r))
		}
		guard = p.And(gs...)
	}
	ctx.guard = guard
	if c.Pure || c.Opaque {
		var res Val
		if c.Pure {
			res = ex.pureResult(st, name, sig, args)
		} else {
			res = ex.freshResults(st, sig, name)
		}
		return ex.assumeEnsures(ctx, st, nil, c, sig, res)
	}
	pre := st.fork()
	// havoc the frame
	if !c.HasMod && c.Trusted && len(c.Ensures) == 0 && len(c.Requires) == 0 {
		ex.havocCall(st, pos, name)
	} else {
		for _, m := range c.Modifies {
			ex.havocMod(ctx, st, pre, m, pos)
		}
		nt := p.Fresh("heapTop", IntSort)
		ex.assume(st, p.Ge(nt, st.heapTop))
		st.heapTop = nt
	}
	res := ex.freshResults(st, sig, name)
	return ex.assumeEnsures(ctx, st, pre, c, sig, res)
}

func (ex *Exec) assumeEnsures(ctx *EvalCtx, st, pre *State, c *FuncContract, sig *types.Signature, res Val) Val {
	p := ex.p
	post := &EvalCtx{ex: ex, st: st, old: pre, vars: map[string]tv{}, pkgPath: ctx.pkgPath}
	for k, v := range ctx.vars {
		post.vars[k] = v
	}
	bindResults(post.vars, sig, res)
	if c.NonNil {
		switch r := res.(type) {
		case *Term:
			ex.assume(st, p.Not(p.Eq(r, p.Int(0))))
		case TupleV:
			if len(r) > 0 {
				if t, ok := r[0].(*Term); ok && t.Sort.Kind == SInt {
					ex.assume(st, p.Not(p.Eq(t, p.Int(0))))
				}
			}
		}
	}
	// results that are references lie below the (new) allocation frontier
	for i := 0; i < sig.Results().Len(); i++ {
		var r Val
		if tvv, ok := res.(TupleV); ok {
			r = tvv[i]
		} else {
			r = res
		}
		if t, ok := r.(*Term); ok {
			ex.pointerBound(st, t, sig.Results().At(i).Type())
		}
	}
	if len(c.AssumedEnsures) > 0 {
		ex.assumptions["assumed postcondition of "+c.Key+": "+c.AssumedEnsures[0].Text] = true
	}
	evalAll := func() []*Term {
		var terms []*Term
		for _, e := range append(append([]*Clause(nil), c.Ensures...), c.AssumedEnsures...) {
			if e.Local {
				continue
			}
			t := ex.evalAssume(post, e)
			if ctx.guard != nil {
				t = p.Implies(ctx.guard, t)
			}
			terms = append(terms, t)
		}
		return terms
	}
	if ctx.guard != nil || ex.noOblige > 0 || !c.Definitional || os.Getenv("GOVC_NODEF") != "" {
		for _, t := range evalAll() {
			ex.assume(st, t)
		}
		return res
	}
	// phase 1: evaluate once only to discover equations that define parts of the fresh result
	nf := len(ex.facts)
	shiftKeys := map[string]bool{}
	for k := range ex.shiftCache {
		shiftKeys[k] = true
	}
	terms := evalAll()
	// Postconditions that pin a fresh result down are applied as definitions rather than kept as equations:
	//   result-part == term      → substitute
	//   fresh(ref) && region[ref] == value → region := store(region, ref, value)   (ref becomes an allocation constant)
	// This keeps later select-over-store terms syntactically reducible. It is an equivalence-preserving rewriting.
	freshSet := map[*Term]bool{}
	var collect func(v Val)
	collect = func(v Val) {
		switch x := v.(type) {
		case *Term:
			if x.Op == "const" && strings.HasPrefix(x.Name, "ret:") {
				freshSet[x] = true
			}
			if x.Op == "mk" {
				for _, a := range x.Args {
					collect(a)
				}
			}
		case TupleV:
			for _, a := range x {
				collect(a)
			}
		}
	}
	collect(res)
	var conj []*Term
	for _, t := range terms {
		conj = append(conj, conjuncts(t)...)
	}
	subst := map[*Term]*Term{}
	var defs []*Term // the defining equations are kept as facts: earlier facts (type ranges) mention the constants
	contains := func(t, x *Term) bool {
		found := false
		seen := map[int]bool{}
		var rec func(t *Term)
		rec = func(t *Term) {
			if found || seen[t.id] {
				return
			}
			seen[t.id] = true
			if t == x {
				found = true
				return
			}
			for _, a := range t.Args {
				rec(a)
			}
		}
		rec(t)
		return found
	}
	var keep []*Term
	for _, cj := range conj {
		if cj.Op == "=" {
			a, b := cj.Args[0], cj.Args[1]
			// result == value for a structured fresh result: define it component-wise
			decomposed := false
			for side := 0; side < 2 && !decomposed; side++ {
				m, o := cj.Args[side], cj.Args[1-side]
				if m.Op != "mk" || len(m.Args) == 0 {
					continue
				}
				allFresh := true
				for _, part := range m.Args {
					if !freshSet[part] || subst[part] != nil || contains(o, part) {
						allFresh = false
					}
				}
				if allFresh {
					for i, part := range m.Args {
						subst[part] = p.Acc(o, i)
					}
					defs = append(defs, cj)
					decomposed = true
				}
			}
			if decomposed {
				continue
			}
			if freshSet[a] && subst[a] == nil && !contains(b, a) {
				subst[a] = b
				defs = append(defs, cj)
				continue
			}
			if freshSet[b] && subst[b] == nil && !contains(a, b) {
				subst[b] = a
				defs = append(defs, cj)
				continue
			}
		}
		if freshSet[cj] && cj.Sort.Kind == SBool && subst[cj] == nil {
			subst[cj] = p.True()
			continue
		}
		if cj.Op == "not" && freshSet[cj.Args[0]] && subst[cj.Args[0]] == nil {
			subst[cj.Args[0]] = p.False()
			continue
		}
		keep = append(keep, cj)
	}
	// close the substitution (right-hand sides may mention other substituted constants)
	if len(subst) > 0 {
		for i := 0; i < 4; i++ {
			changed := false
			for k, v := range subst {
				nv := p.Subst(v, subst)
				if nv != v && !contains(nv, k) {
					subst[k] = nv
					changed = true
				}
			}
			if !changed {
				break
			}
		}
		res = ex.substVal(res, subst)
		for k, v := range st.heap {
			st.heap[k] = p.Subst(v, subst)
		}
		for k, v := range st.ghost {
			st.ghost[k] = p.Subst(v, subst)
		}
		// phase 2: evaluate again with the pinned result (side-effect facts of phase 1 are kept: some are cached
		// definitions that would not be re-added)
		_ = nf
		_ = shiftKeys
		bindResults2(post.vars, sig, res)
		keep = nil
		for _, t := range evalAll() {
			for _, cj := range conjuncts(t) {
				if !cj.IsTrue() {
					keep = append(keep, cj)
				}
			}
		}
	}
	// allocation constants: result references declared fresh by the contract
	if pre != nil {
		for _, cj := range keep {
			if cj.Op == "<=" && cj.Args[0] == pre.heapTop && cj.Args[1].Op == "const" && strings.HasPrefix(cj.Args[1].Name, "ret:") {
				if _, done := ex.allocOrder[cj.Args[1]]; !done {
					ex.allocN++
					ex.allocOrder[cj.Args[1]] = ex.allocN
				}
			}
		}
		var keep2 []*Term
		for _, cj := range keep {
			applied := false
			if cj.Op == "=" {
				for side := 0; side < 2 && !applied; side++ {
					sel, val := cj.Args[side], cj.Args[1-side]
					if sel.Op != "select" {
						continue
					}
					ref := sel.Args[1]
					if _, isAlloc := ex.allocOrder[ref]; !isAlloc || contains(val, sel.Args[0]) {
						continue
					}
					for name, cur := range st.heap {
						if cur == sel.Args[0] {
							st.heap[name] = p.Store(cur, ref, val)
							applied = true
							break
						}
					}
				}
			}
			if !applied {
				keep2 = append(keep2, cj)
			}
		}
		keep = keep2
	}
	for _, t := range keep {
		ex.assume(st, t)
	}
	for _, t := range defs {
		ex.assume(st, t)
	}
	return res
}

func (ex *Exec) substVal(v Val, m map[*Term]*Term) Val {
	switch x := v.(type) {
	case *Term:
		return ex.p.Subst(x, m)
	case TupleV:
		out := make(TupleV, len(x))
		for i, a := range x {
			out[i] = ex.substVal(a, m)
		}
		return out
	}
	return v
}

// bindResults2 rebinds result names unconditionally (after the result value was refined).
func bindResults2(vars map[string]tv, sig *types.Signature, res Val) {
	rs := sig.Results()
	for i := 0; i < rs.Len(); i++ {
		if n := rs.At(i).Name(); n != "" && n != "_" {
			if old, ok := vars[n]; ok {
				if r0, ok2 := vars[fmt.Sprintf("result%d", i)]; ok2 && old.v == r0.v {
					delete(vars, n)
				}
			}
		}
	}
	delete(vars, "result")
	bindResults(vars, sig, res)
}

func bindResults(vars map[string]tv, sig *types.Signature, res Val) {
	rs := sig.Results()
	switch rs.Len() {
	case 0:
	case 1:
		vars["result"] = tv{res, rs.At(0).Type()}
		vars["result0"] = tv{res, rs.At(0).Type()}
		if n := rs.At(0).Name(); n != "" && n != "_" {
			if _, clash := vars[n]; !clash {
				vars[n] = tv{res, rs.At(0).Type()}
			}
		}
	default:
		t := res.(TupleV)
		for i := 0; i < rs.Len(); i++ {
			vars[fmt.Sprintf("result%d", i)] = tv{t[i], rs.At(i).Type()}
			if n := rs.At(i).Name(); n != "" && n != "_" {
				if _, clash := vars[n]; !clash {
					vars[n] = tv{t[i], rs.At(i).Type()}
				}
			}
		}
	}
}

func (ex *Exec) pureResult(st *State, name string, sig *types.Signature, args []Val) Val {
	p := ex.p
	var ats []*Term
	var ss []*Sort
	for _, a := range args {
		t, ok := a.(*Term)
		if !ok {
			pt, err := ex.ptrTerm(a)
			if err != nil {
				ex.fail("pure call %s: %v", name, err)
			}
			t = pt
		}
		ats = append(ats, t)
		ss = append(ss, t.Sort)
	}
	mk := func(i int, t types.Type) *Term {
		f := p.Func(fmt.Sprintf("pure:%s.%d", name, i), ss, ex.tm.SortOf(t))
		r := p.App(f, ats...)
		ex.facts = append(ex.facts, ex.tm.InRange(r, t, 0))
		return r
	}
	rs := sig.Results()
	switch rs.Len() {
	case 0:
		return TupleV{}
	case 1:
		return mk(0, rs.At(0).Type())
	}
	out := make(TupleV, rs.Len())
	for i := range out {
		out[i] = mk(i, rs.At(i).Type())
	}
	return out
}

// ------------------------------------------------------------------ modifies / frame

func (ex *Exec) modTargets(ctx *EvalCtx, m *Clause) []modEntry {
	return ctx.modTargets(m.Expr)
}

func (ex *Exec) havocMod(ctx *EvalCtx, st, pre *State, m *Clause, pos string) {
	p := ex.p
	pc := &EvalCtx{ex: ex, st: pre, vars: ctx.vars, pkgPath: ctx.pkgPath}
	for _, t := range pc.modTargets(m.Expr) {
		if strings.HasPrefix(t.region, "ghost:") {
			g := strings.TrimPrefix(t.region, "ghost:")
			old := ex.ghostVar(st, g)
			st.ghost[g] = p.Fresh("ghost:"+g, old.Sort)
			continue
		}
		if t.region == "*" {
			ex.havocCall(st, pos, "modifies heap")
			continue
		}
		s, ok := ex.regionSorts[t.region]
		if !ok {
			continue // never read or written so far in this execution: nothing to forget
		}
		r := ex.getRegion(st, t.region, s)
		if t.ref == nil {
			st.heap[t.region] = p.Fresh("havoc:"+t.region, s)
		} else {
			st.heap[t.region] = p.Store(r, t.ref, p.Fresh("havoc:"+t.region, s.Elem))
		}
		ex.frameCheck(st, t.region, t.ref, pos)
	}
}

func (ex *Exec) frameCheck(st *State, region string, ref *Term, pos string) {
	if !ex.frameOn || ex.noOblige > 0 {
		return
	}
	p := ex.p
	if ref != nil {
		if _, isAlloc := ex.allocOrder[ref]; isAlloc {
			return // allocated by this very execution: fresh by construction
		}
	}
	var alts []*Term
	if ref != nil {
		alts = append(alts, p.Ge(ref, ex.heapTop0))
	}
	for _, m := range ex.modSet {
		if m.region == "*" {
			return
		}
		if m.region != region {
			continue
		}
		if m.ref == nil {
			return
		}
		if ref != nil {
			alts = append(alts, p.Eq(ref, m.ref))
		}
	}
	ex.oblige(st, "frame", "write to "+region+" outside the modifies clause", p.Or(alts...), pos)
}

func (ex *Exec) modRegionNames(fr *frame, st *State, m *Clause) []string {
	ctx := ex.ctxFor(fr, st, nil)
	var out []string
	for _, t := range ctx.modTargets(m.Expr) {
		out = append(out, t.region)
	}
	return out
}

func (ex *Exec) ghostVar(st *State, name string) *Term {
	if t, ok := st.ghost[name]; ok {
		return t
	}
	g, ok := ex.P.CS.Ghosts[name]
	if !ok {
		ex.fail("unknown ghost variable %s", name)
	}
	t := ex.p.Const("ghost:"+name+"@0", ex.specSort(g.Type, g.PkgPath))
	st.ghost[name] = t
	return t
}

// ------------------------------------------------------------------ builtins

func (ex *Exec) builtin(st *State, b *ssa.Builtin, cc *ssa.CallCommon, args []Val, pos string) Val {
	p := ex.p
	switch b.Name() {
	case "len":
		x := args[0].(*Term)
		switch t := cc.Args[0].Type().Underlying().(type) {
		case *types.Slice:
			return p.Acc(x, 2)
		case *types.Basic:
			return ex.strlen(x)
		case *types.Array:
			return p.Int(t.Len())
		case *types.Pointer:
			return p.Int(t.Elem().Underlying().(*types.Array).Len())
		case *types.Map:
			f := p.Func("maplen", []*Sort{IntSort}, IntSort)
			r := p.App(f, x)
			ex.facts = append(ex.facts, p.Ge(r, p.Int(0)))
			return r
		case *types.Chan:
			r := p.Fresh("chanlen", IntSort)
			ex.facts = append(ex.facts, p.Ge(r, p.Int(0)))
			return r
		}
	case "cap":
		x := args[0].(*Term)
		switch cc.Args[0].Type().Underlying().(type) {
		case *types.Slice:
			return p.Acc(x, 3)
		}
	case "append":
		return ex.appendOp(st, cc, args, pos)
	case "copy":
		return ex.copyOp(st, cc, args, pos)
	case "min", "max":
		cur := args[0].(*Term)
		for _, a := range args[1:] {
			t := a.(*Term)
			if b.Name() == "min" {
				cur = p.Ite(p.Lt(t, cur), t, cur)
			} else {
				cur = p.Ite(p.Gt(t, cur), t, cur)
			}
		}
		return cur
	case "ssa:wrapnilchk":
		return args[0]
	case "print", "println", "close", "recover":
		return p.Int(0)
	case "delete":
		mt := cc.Args[0].Type().Underlying().(*types.Map)
		m := args[0].(*Term)
		k := args[1].(*Term)
		_, hn, _, hs := ex.mapRegions(st, mt)
		hr := ex.getRegion(st, hn, hs)
		st.heap[hn] = p.Ite(p.Eq(m, p.Int(0)), hr, p.Store(hr, m, p.Store(p.Select(hr, m), k, p.False())))
		return TupleV{}
	case "clear":
		if mt, ok := cc.Args[0].Type().Underlying().(*types.Map); ok {
			m := args[0].(*Term)
			_, hn, _, hs := ex.mapRegions(st, mt)
			hr := ex.getRegion(st, hn, hs)
			st.heap[hn] = p.Ite(p.Eq(m, p.Int(0)), hr, p.Store(hr, m, p.ConstArray(hs.Elem, p.False())))
			return TupleV{}
		}
	}
	ex.fail("unsupported builtin %s at %s", b.Name(), pos)
	return nil
}

// appendOp models append as always reallocating: the result has a fresh backing array holding
// the old elements followed by the new ones. Sound when the old slice value is dead afterwards.
func (ex *Exec) appendOp(st *State, cc *ssa.CallCommon, args []Val, pos string) Val {
	p := ex.p
	s := args[0].(*Term)
	xs := args[1].(*Term)
	el := cc.Args[0].Type().Underlying().(*types.Slice).Elem()
	if b, ok := cc.Args[1].Type().Underlying().(*types.Basic); ok && b.Info()&types.IsString != 0 {
		// append([]byte, string...)
		xs = ex.bytesOfString(st, xs)
	}
	es := ex.tm.SortOf(el)
	name := "[]" + shortTypeName(el)
	rs := p.ArraySort(IntSort, p.ArraySort(IntSort, es))
	r := ex.getRegion(st, name, rs)
	oldSeq := ex.sliceSeq(st, s, el)
	n := p.Acc(s, 2)
	m := p.Acc(xs, 2)
	var newArr *Term
	if m.Op == "int" && m.Int.IsInt64() && m.Int.Int64() <= 8 {
		newArr = oldSeq
		xseq := ex.sliceSeq(st, xs, el)
		for i := int64(0); i < m.Int.Int64(); i++ {
			newArr = p.Store(newArr, p.Add(n, p.Int(i)), p.Select(xseq, p.Int(i)))
		}
	} else {
		// general case: uninterpreted concatenation with a quantified definition
		xseq := ex.sliceSeq(st, xs, el)
		newArr = p.Fresh("concat", oldSeq.Sort)
		i := p.BoundVar("i", IntSort)
		ex.assume(st, p.Forall([]*Term{i}, p.Eq(p.Select(newArr, i),
			p.Ite(p.Lt(i, n), p.Select(oldSeq, i), p.Select(xseq, p.Sub(i, n)))), []*Term{p.Select(newArr, i)}))
	}
	ref := ex.freshRef(st)
	st.heap[name] = p.Store(r, ref, newArr)
	total := p.Add(n, m)
	if bt, ok := el.Underlying().(*types.Basic); ok && bt.Kind() == types.Uint8 {
		// byte strings: the abstract string of the result is the concatenation of the abstract strings of the parts
		if sf := ex.P.CS.Specs["bytesOf"]; sf != nil {
			if cf := ex.P.CS.Specs["catB"]; cf != nil {
				xseq := ex.sliceSeq(st, xs, el)
				whole := ex.specApp(sf, []*Term{newArr, total}, "")
				left := ex.specApp(sf, []*Term{oldSeq, n}, "")
				right := ex.specApp(sf, []*Term{xseq, m}, "")
				ex.assume(st, p.Eq(whole, ex.specApp(cf, []*Term{left, right}, "")))
				ex.assumptions["append on byte slices concatenates their abstract byte strings (true by the model of append)"] = true
			}
		}
	}
	capT := p.Fresh("cap", IntSort)
	ex.assume(st, p.And(p.Ge(capT, total), p.Le(capT, p.Int(1<<40))))
	// append is modelled as reallocation. That is exact when nothing else can look at the backing array of the slice
	// being extended (appendown.go decides that from the SSA). Where that cannot be shown, the exact two-case model is
	// used: when the capacity suffices the slice grows in place (the cells behind its length in the shared backing
	// array are overwritten, visible through every alias), otherwise it is reallocated.
	owned := true
	if refs := cc.Args[0].Referrers(); refs != nil {
		for _, r := range *refs {
			if ci, ok := r.(*ssa.Call); ok && &ci.Call == cc {
				if okOwn, _ := appendOwnerOK(ci); !okOwn {
					owned = false
				}
			}
		}
	}
	realloc := p.Mk(ex.tm.SliceS, ref, p.Int(0), total, capT)
	if owned {
		ex.assumptions["append is modelled as reallocation where the ownership check shows that to be exact (the extended slice is made / carried / stored back here and nothing else keeps it), else by the exact in-place / reallocate case split; a caller's view of a parameter's array beyond its length is not tracked"] = true
		return realloc
	}
	sref, soff, scap := p.Acc(s, 0), p.Acc(s, 1), p.Acc(s, 3)
	inPlace := p.And(p.Not(p.Eq(sref, p.Int(0))), p.Le(total, scap))
	oldBacking := p.Select(r, sref)
	var inArr *Term
	xseq := ex.sliceSeq(st, xs, el)
	if m.Op == "int" && m.Int.IsInt64() && m.Int.Int64() <= 8 {
		inArr = oldBacking
		for i := int64(0); i < m.Int.Int64(); i++ {
			inArr = p.Store(inArr, p.Add(p.Add(soff, n), p.Int(i)), p.Select(xseq, p.Int(i)))
		}
	} else {
		inArr = p.Fresh("grown", oldBacking.Sort)
		i := p.BoundVar("i", IntSort)
		lo := p.Add(soff, n)
		ex.assume(st, p.Forall([]*Term{i}, p.Eq(p.Select(inArr, i),
			p.Ite(p.And(p.Le(lo, i), p.Lt(i, p.Add(lo, m))), p.Select(xseq, p.Sub(i, lo)), p.Select(oldBacking, i))), []*Term{p.Select(inArr, i)}))
	}
	if bt, ok := el.Underlying().(*types.Basic); ok && bt.Kind() == types.Uint8 {
		if sf := ex.P.CS.Specs["bytesOf"]; sf != nil {
			if cf := ex.P.CS.Specs["catB"]; cf != nil {
				var view *Term = inArr
				if !(soff.Op == "int" && soff.Int.Sign() == 0) {
					view = ex.shiftView(inArr, soff)
				}
				whole := ex.specApp(sf, []*Term{view, total}, "")
				left := ex.specApp(sf, []*Term{oldSeq, n}, "")
				right := ex.specApp(sf, []*Term{xseq, m}, "")
				ex.assume(st, p.Implies(inPlace, p.Eq(whole, ex.specApp(cf, []*Term{left, right}, ""))))
			}
		}
	}
	// r (read before the reallocation was recorded) is the region before the call
	st.heap[name] = p.Ite(inPlace, p.Store(r, sref, inArr), p.Store(r, ref, newArr))
	ex.assumptions["append: exact in-place / reallocate case split used for a call whose extended slice may be aliased (writes of in-place growth are not subject to the frame check: they lie behind the length of the extended slice)"] = true
	return p.Ite(inPlace, p.Mk(ex.tm.SliceS, sref, soff, total, scap), realloc)
}

func (ex *Exec) copyOp(st *State, cc *ssa.CallCommon, args []Val, pos string) Val {
	p := ex.p
	dst := args[0].(*Term)
	src := args[1].(*Term)
	el := cc.Args[0].Type().Underlying().(*types.Slice).Elem()
	if b, ok := cc.Args[1].Type().Underlying().(*types.Basic); ok && b.Info()&types.IsString != 0 {
		src = ex.bytesOfString(st, src)
	}
	es := ex.tm.SortOf(el)
	name := "[]" + shortTypeName(el)
	rs := p.ArraySort(IntSort, p.ArraySort(IntSort, es))
	r := ex.getRegion(st, name, rs)
	n := p.Ite(p.Lt(p.Acc(dst, 2), p.Acc(src, 2)), p.Acc(dst, 2), p.Acc(src, 2))
	dArr := p.Select(r, p.Acc(dst, 0))
	sseq := ex.sliceSeq(st, src, el)
	nArr := p.Fresh("copied", dArr.Sort)
	i := p.BoundVar("i", IntSort)
	off := p.Acc(dst, 1)
	ex.facts = append(ex.facts, p.Forall([]*Term{i}, p.Eq(p.Select(nArr, i),
		p.Ite(p.And(p.Le(off, i), p.Lt(i, p.Add(off, n))), p.Select(sseq, p.Sub(i, off)), p.Select(dArr, i))), []*Term{p.Select(nArr, i)}))
	st.heap[name] = p.Ite(p.Eq(p.Acc(dst, 0), p.Int(0)), r, p.Store(r, p.Acc(dst, 0), nArr))
	ex.frameCheck(st, name, p.Acc(dst, 0), pos)
	if o := p.Acc(dst, 1); o.Op == "int" && o.Int.Sign() == 0 {
		if dl := p.Acc(dst, 2); dl.Op == "int" {
			// whole-array copy: remembered so that a later conversion of the array to an abstract hash / address
			// value is the value of the source bytes
			ex.wholeCopy[nArr] = wholeCopy{src: sseq, srcLen: p.Acc(src, 2), width: dl.Int.Int64()}
		}
	}
	if origin, ok := ex.sliceOrigin[p.Acc(dst, 0)]; ok {
		// write-through: the destination is the byte view of a hash/address variable
		var back *Term
		ot := origin.rootOrStepType()
		width := int64(32)
		fname, rs := "hashOf", ex.tm.HashS
		if isAddrType(ot) {
			width, fname, rs = 20, "addrOf", ex.tm.AddrS
		}
		if isHashType(ot) || isAddrType(ot) {
			g := p.Func(fname, []*Sort{p.ArraySort(IntSort, IntSort)}, rs)
			back = p.App(g, nArr)
			// whole-value copy from a source that is at least as long: the new value is exactly the source's bytes
			if off := p.Acc(dst, 1); off.Op == "int" && off.Int.Sign() == 0 {
				if dl := p.Acc(dst, 2); dl.Op == "int" && dl.Int.Int64() == width {
					back = p.Ite(p.Ge(p.Acc(src, 2), p.Int(width)), p.App(g, sseq), back)
				}
			}
		}
		if back != nil {
			ex.store(st, origin, back, pos)
		}
	}
	return n
}

func sortedNames(m map[string]bool) []string {
	var out []string
	for k := range m {
		out = append(out, k)
	}
	sort.Strings(out)
	return out
}

// bytesOfAbstract: the byte string of an abstract Hash / Addr value (uninterpreted, injective via hashOf/addrOf).
func (ex *Exec) bytesOfAbstract(h *Term) *Term {
	p := ex.p
	arrS := p.ArraySort(IntSort, IntSort)
	if h.Sort == ex.tm.HashS {
		f := p.Func("hb", []*Sort{ex.tm.HashS}, arrS)
		g := p.Func("hashOf", []*Sort{arrS}, ex.tm.HashS)
		if !ex.assumptions["hashOf(hb(h)) == h"] {
			ex.assumptions["hashOf(hb(h)) == h"] = true
			x := p.BoundVar("h", ex.tm.HashS)
			ex.facts = append(ex.facts, p.Forall([]*Term{x}, p.Eq(p.App(g, p.App(f, x)), x), []*Term{p.App(f, x)}))
			// and the bytes of the hash made from a byte array are that array's first 32 bytes
			a := p.BoundVar("a", arrS)
			i := p.BoundVar("i", IntSort)
			sel := p.Select(p.App(f, p.App(g, a)), i)
			ex.facts = append(ex.facts, p.Forall([]*Term{a, i}, p.Implies(p.And(p.Le(p.Int(0), i), p.Lt(i, p.Int(32))), p.Eq(sel, p.Select(a, i))), []*Term{sel}))
		}
		return p.App(f, h)
	}
	f := p.Func("ab", []*Sort{ex.tm.AddrS}, arrS)
	g := p.Func("addrOf", []*Sort{arrS}, ex.tm.AddrS)
	if !ex.assumptions["addrOf(ab(a)) == a"] {
		ex.assumptions["addrOf(ab(a)) == a"] = true
		x := p.BoundVar("a", ex.tm.AddrS)
		ex.facts = append(ex.facts, p.Forall([]*Term{x}, p.Eq(p.App(g, p.App(f, x)), x), []*Term{p.App(f, x)}))
	}
	return p.App(f, h)
}

// contractCallBehaviors: a callee with several behaviours. The caller must establish the precondition of at least
// one of them; each behaviour's postcondition is assumed under its own precondition (evaluated in the pre-state).
func (ex *Exec) contractCallBehaviors(fr *frame, st *State, c *FuncContract, name string, sig *types.Signature, names []string, ptypes []types.Type, args []Val, pos string) Val {
	p := ex.p
	all := append([]*FuncContract{c}, c.Behaviors...)
	for _, b := range all {
		if b.Behavior != "schema" {
			b.Used = true // (a schema instance is an obligation schema, not something callers rely on)
		}
	}
	vars := map[string]tv{}
	for i, n := range names {
		if i < len(args) && n != "" && n != "_" {
			vars[n] = tv{args[i], ptypes[i]}
		}
	}
	if len(names) > 0 && sig.Recv() != nil {
		vars["self"] = tv{args[0], ptypes[0]}
	}
	ctx := &EvalCtx{ex: ex, st: st, vars: vars, pkgPath: c.PkgPath}
	var pres []*Term
	for _, b := range all {
		var gs []*Term
		for _, r := range b.Requires {
			gs = append(gs, ex.evalBool(ctx, r))
		}
		pres = append(pres, p.And(gs...))
	}
	ex.oblige(st, "call["+name+"].pre", "the precondition of some behaviour of "+name+" holds", p.Or(pres...), pos)
	pre := st.fork()
	for _, b := range all {
		for _, m := range b.Modifies {
			ex.havocMod(ctx, st, pre, m, pos)
		}
	}
	nt := p.Fresh("heapTop", IntSort)
	ex.assume(st, p.Ge(nt, st.heapTop))
	st.heapTop = nt
	res := ex.freshResults(st, sig, name)
	for i, b := range all {
		bc := &EvalCtx{ex: ex, st: st, vars: vars, pkgPath: c.PkgPath, guard: pres[i]}
		ex.assumeEnsures(bc, st, pre, b, sig, res)
	}
	return res
}

// callSiteAsserts: "assert call:<callee>[:k] expr" clauses of the function under check are obligations in the state
// just before the k-th (in source order, 0-based; every site when k is omitted) call to a callee of that name.
func (ex *Exec) callSiteAsserts(fr *frame, st *State, cc *ssa.CallCommon, instr *ssa.Call, pos string) {
	if instr == nil {
		return
	}
	ex.siteAsserts(fr, st, cc, instr, "call", pos)
}

// siteAsserts handles "assert call:<name>[:k] e" and "assert go:<name>[:k] e" (the goroutine start itself is not
// modelled, but what it is started with can be pinned). arg0, arg1, ... name the call's arguments.
func (ex *Exec) siteAsserts(fr *frame, st *State, cc *ssa.CallCommon, instr ssa.Instruction, kind string, pos string) {
	// (asserts also apply inside callees executed in place: they are part of the behaviour of the function under check)
	if ex.topC == nil || instr == nil || ex.noOblige > 0 {
		return
	}
	if ex.topC.Threads != nil && fr.fn == ex.top && kind == "call" {
		ex.threadsAsserts(fr, st, cc, pos)
	}
	if len(ex.topC.Asserts) == 0 {
		return
	}
	name := ""
	if cc.IsInvoke() {
		name = cc.Method.Name()
	} else if f := cc.StaticCallee(); f != nil {
		name = siteCalleeName(f)
	} else if _, isB := cc.Value.(*ssa.Builtin); !isB {
		name = "dyn" // a call of a function value (`assert call:dyn ...`)
	}
	if name == "" {
		return
	}
	// ordinal of this call site among the calls to that name, in block / instruction order
	ord := 0
	found := false
	for _, b := range fr.fn.Blocks {
		for _, in := range b.Instrs {
			var common *ssa.CallCommon
			switch c := in.(type) {
			case *ssa.Call:
				if kind == "call" {
					common = &c.Call
				}
			case *ssa.Go:
				if kind == "go" {
					common = &c.Call
				}
			}
			if common == nil {
				continue
			}
			n := ""
			if common.IsInvoke() {
				n = common.Method.Name()
			} else if f := common.StaticCallee(); f != nil {
				n = siteCalleeName(f)
			} else if _, isB := common.Value.(*ssa.Builtin); !isB {
				n = "dyn"
			}
			if n != name {
				continue
			}
			if in == instr {
				found = true
				break
			}
			ord++
		}
		if found {
			break
		}
	}
	for _, key := range []string{kind + ":" + name, fmt.Sprintf("%s:%s:%d", kind, name, ord)} {
		if len(ex.topC.Asserts[key]) > 0 {
			ex.assertHits[key]++
		}
		for i, cl := range ex.topC.Asserts[key] {
			var lc *loopCtx
			ctx := ex.ctxFor(fr, st, lc)
			for ai, a := range cc.Args {
				if v, ok := st.vals[a]; ok {
					ctx.vars[fmt.Sprintf("arg%d", ai)] = tv{v, a.Type()}
				} else if k, isConst := a.(*ssa.Const); isConst {
					ctx.vars[fmt.Sprintf("arg%d", ai)] = tv{ex.val(st, k), a.Type()}
				}
			}
			if cc.IsInvoke() {
				// the receiver of an interface call is not among its arguments: it is named recv
				if v, ok := st.vals[cc.Value]; ok {
					ctx.vars["recv"] = tv{v, cc.Value.Type()}
				}
			}
			g := ex.evalBool(ctx, cl)
			o := ex.oblige(st, fmt.Sprintf("assert[%s]", key), fmt.Sprintf("assertion %d before the call: %s", i, cl.Text), g, pos)
			if o != nil {
				o.Clause = cl
				if len(cl.Props) > 0 {
					o.Props = cl.Props // (a `props` line inside a contract narrows the clauses that follow it, as for ensures)
				}
			}
		}
	}
}

// sigKey: a function type written without parameter names, e.g. func(*pkg.T,pkg.U)error
func sigKey(sig *types.Signature) string {
	var ps, rs []string
	for i := 0; i < sig.Params().Len(); i++ {
		ps = append(ps, sig.Params().At(i).Type().String())
	}
	for i := 0; i < sig.Results().Len(); i++ {
		rs = append(rs, sig.Results().At(i).Type().String())
	}
	r := strings.Join(rs, ",")
	if len(rs) > 1 {
		r = "(" + r + ")"
	}
	return "func(" + strings.Join(ps, ",") + ")" + r
}

// siteCalleeName: the name a site assertion uses for a static callee; an instance of a generic function is named
// like the generic function (Contains, not Contains[[]T,T]).
func siteCalleeName(f *ssa.Function) string {
	if o := f.Origin(); o != nil && o != f {
		return o.Name()
	}
	return f.Name()
}

// isStoreHandle: the static types through which a store (database or open transaction) is handed on: the interfaces of
// aggkit's db/types package, meddler.DB, *sql.Tx / *sql.DB and aggkit's *db.Tx.
func isStoreHandle(t types.Type) bool {
	if p, ok := t.(*types.Pointer); ok {
		t = p.Elem()
	}
	n, ok := t.(*types.Named)
	if !ok || n.Obj().Pkg() == nil {
		return false
	}
	switch n.Obj().Pkg().Path() + "." + n.Obj().Name() {
	case "github.com/agglayer/aggkit/db/types.Querier", "github.com/agglayer/aggkit/db/types.Txer",
		"github.com/agglayer/aggkit/db/types.DBer", "github.com/agglayer/aggkit/db/types.SQLTxer",
		"github.com/russross/meddler.DB", "database/sql.Tx", "database/sql.DB", "github.com/agglayer/aggkit/db.Tx":
		return true
	}
	return false
}

// threadsAsserts: `threads tx` in the contract of the function under check: at every call of that function, every
// argument (and the receiver of an interface call) whose static type is a store handle is the parameter tx, whenever
// tx is not nil - a read or write that goes around the open transaction is a failed obligation.
func (ex *Exec) threadsAsserts(fr *frame, st *State, cc *ssa.CallCommon, pos string) {
	cl := ex.topC.Threads
	name := "dyn"
	if cc.IsInvoke() {
		name = cc.Method.Name()
	} else if f := cc.StaticCallee(); f != nil {
		name = siteCalleeName(f)
	}
	check := func(a ssa.Value, what string) {
		if !isStoreHandle(a.Type()) {
			return
		}
		v, ok := st.vals[a]
		if !ok {
			if k, isConst := a.(*ssa.Const); isConst {
				v = ex.val(st, k)
			} else {
				return
			}
		}
		ctx := ex.ctxFor(fr, st, nil)
		if _, isParam := ctx.vars[ex.topC.ThreadsParam]; !isParam {
			// a handle the function opens itself (tx, err := db.NewTx(...)): the clause speaks about the calls made
			// once it exists
			lv, ok := ctx.localName(ex.topC.ThreadsParam)
			if !ok {
				return
			}
			ctx.vars[ex.topC.ThreadsParam] = lv
		}
		ctx.vars["argH"] = tv{v, a.Type()}
		g := ex.evalBool(ctx, cl)
		if o := ex.oblige(st, fmt.Sprintf("threads[%s][call:%s %s]", ex.topC.ThreadsParam, name, what), cl.Text, g, pos); o != nil {
			o.Clause = cl
		}
	}
	for ai, a := range cc.Args {
		check(a, fmt.Sprintf("arg%d", ai))
	}
	if cc.IsInvoke() {
		check(cc.Value, "recv")
	}
}
