package main

// Hash-consed SMT terms with light simplification and an SMT-LIB2 printer.

import (
	"fmt"
	"math/big"
	"sort"
	"strings"
)

type SortKind int

const (
	SBool SortKind = iota
	SInt
	SReal
	SUninterp
	SArray
	SData
)

type Sort struct {
	Kind  SortKind
	Name  string // SMT name (for uninterp / datatypes)
	Index *Sort  // arrays
	Elem  *Sort
	// datatypes
	Ctor   string
	Fields []DField
}

type DField struct {
	Name string // accessor name (SMT symbol)
	Sort *Sort
}

func (s *Sort) String() string {
	switch s.Kind {
	case SBool:
		return "Bool"
	case SInt:
		return "Int"
	case SReal:
		return "Real"
	case SArray:
		return "(Array " + s.Index.String() + " " + s.Elem.String() + ")"
	default:
		return s.Name
	}
}

var (
	BoolSort = &Sort{Kind: SBool}
	IntSort  = &Sort{Kind: SInt}
	RealSort = &Sort{Kind: SReal}
)

type FuncDecl struct {
	Name   string
	Params []*Sort
	Ret    *Sort
	// optional definition (spec functions)
	DefParams []*Term // bound vars
	DefBody   *Term
	Rec       bool
}

type Term struct {
	Op    string // "const","int","real","true","false","app","bound", builtin op names, "forall","exists"
	Name  string // const/app/bound name
	Int   *big.Int
	Args  []*Term
	Bound []*Term // quantifier bound variables
	Pats  [][]*Term
	Sort  *Sort
	Fn    *FuncDecl
	id    int
	hasBV bool // contains bound variables
}

type Pool struct {
	terms       map[string]*Term
	next        int
	arraySorts  map[string]*Sort
	uSorts      map[string]*Sort
	dSorts      map[string]*Sort
	dOrder      []*Sort
	funcs       map[string]*FuncDecl
	fOrder      []*FuncDecl
	consts      map[string]*Term
	cOrder      []*Term
	freshN      map[string]int
	DistinctFn  func(a, b *Term) bool
	selMemo     map[[2]int]*Term
	RecAsDefine bool // emit recursive spec functions as define-fun-rec (used for ground replay queries)
}

func NewPool() *Pool {
	return &Pool{terms: map[string]*Term{}, arraySorts: map[string]*Sort{}, uSorts: map[string]*Sort{},
		dSorts: map[string]*Sort{}, funcs: map[string]*FuncDecl{}, consts: map[string]*Term{}, freshN: map[string]int{}, selMemo: map[[2]int]*Term{}}
}

func (p *Pool) ArraySort(idx, elem *Sort) *Sort {
	k := idx.String() + "→" + elem.String()
	if s, ok := p.arraySorts[k]; ok {
		return s
	}
	s := &Sort{Kind: SArray, Index: idx, Elem: elem}
	p.arraySorts[k] = s
	return s
}

func (p *Pool) USort(name string) *Sort {
	if s, ok := p.uSorts[name]; ok {
		return s
	}
	s := &Sort{Kind: SUninterp, Name: name}
	p.uSorts[name] = s
	return s
}

func quoteSym(s string) string {
	simple := true
	for _, c := range s {
		if !(c >= 'a' && c <= 'z' || c >= 'A' && c <= 'Z' || c >= '0' && c <= '9' || c == '_' || c == '.' || c == '$' || c == '!') {
			simple = false
			break
		}
	}
	if simple && len(s) > 0 && !(s[0] >= '0' && s[0] <= '9') {
		return s
	}
	return "|" + strings.ReplaceAll(s, "|", "!") + "|"
}

// DataSort declares (or returns) a single-constructor datatype.
func (p *Pool) DataSort(name string, mk func(self *Sort) []DField) *Sort {
	if s, ok := p.dSorts[name]; ok {
		return s
	}
	s := &Sort{Kind: SData, Name: quoteSym(name), Ctor: quoteSym("mk!" + name)}
	p.dSorts[name] = s
	s.Fields = mk(s)
	p.dOrder = append(p.dOrder, s) // after its dependencies (mk declares them first)
	return s
}

func (p *Pool) Func(name string, params []*Sort, ret *Sort) *FuncDecl {
	if f, ok := p.funcs[name]; ok {
		return f
	}
	f := &FuncDecl{Name: name, Params: params, Ret: ret}
	p.funcs[name] = f
	p.fOrder = append(p.fOrder, f)
	return f
}

func (p *Pool) intern(t *Term) *Term {
	var sb strings.Builder
	sb.WriteString(t.Op)
	sb.WriteByte(':')
	sb.WriteString(t.Name)
	if t.Int != nil {
		sb.WriteString(t.Int.String())
	}
	if t.Op == "const" || t.Op == "bound" || t.Op == "as-array-const" {
		sb.WriteString("@" + t.Sort.String())
	}
	for _, a := range t.Args {
		fmt.Fprintf(&sb, ",%d", a.id)
	}
	if len(t.Bound) > 0 {
		sb.WriteString(";b")
		for _, a := range t.Bound {
			fmt.Fprintf(&sb, ",%d", a.id)
		}
		for _, ps := range t.Pats {
			sb.WriteString(";p")
			for _, a := range ps {
				fmt.Fprintf(&sb, ",%d", a.id)
			}
		}
	}
	k := sb.String()
	if e, ok := p.terms[k]; ok {
		return e
	}
	p.next++
	t.id = p.next
	for _, a := range t.Args {
		if a.hasBV {
			t.hasBV = true
		}
	}
	if t.Op == "bound" {
		t.hasBV = true
	}
	p.terms[k] = t
	return t
}

func (p *Pool) Const(name string, s *Sort) *Term {
	t := p.intern(&Term{Op: "const", Name: name, Sort: s})
	if _, ok := p.consts[name]; !ok {
		p.consts[name] = t
		p.cOrder = append(p.cOrder, t)
	}
	return t
}

func (p *Pool) Fresh(prefix string, s *Sort) *Term {
	p.freshN[prefix]++
	n := p.freshN[prefix]
	name := prefix
	if n > 1 || true {
		name = fmt.Sprintf("%s!%d", prefix, n)
	}
	return p.Const(name, s)
}

func (p *Pool) BoundVar(name string, s *Sort) *Term {
	p.freshN["bv!"+name]++
	return p.intern(&Term{Op: "bound", Name: fmt.Sprintf("%s!b%d", name, p.freshN["bv!"+name]), Sort: s})
}

func (p *Pool) Int(v int64) *Term { return p.IntBig(big.NewInt(v)) }
func (p *Pool) IntBig(v *big.Int) *Term {
	return p.intern(&Term{Op: "int", Int: new(big.Int).Set(v), Sort: IntSort})
}
func (p *Pool) Real(v *big.Rat) *Term {
	return p.intern(&Term{Op: "real", Name: v.String(), Sort: RealSort})
}
func (p *Pool) True() *Term  { return p.intern(&Term{Op: "true", Sort: BoolSort}) }
func (p *Pool) False() *Term { return p.intern(&Term{Op: "false", Sort: BoolSort}) }
func (p *Pool) Bool(b bool) *Term {
	if b {
		return p.True()
	}
	return p.False()
}

func (t *Term) IsTrue() bool  { return t.Op == "true" }
func (t *Term) IsFalse() bool { return t.Op == "false" }
func (t *Term) IsLit() bool   { return t.Op == "int" }

func (p *Pool) Not(a *Term) *Term {
	switch a.Op {
	case "true":
		return p.False()
	case "false":
		return p.True()
	case "not":
		return a.Args[0]
	}
	return p.intern(&Term{Op: "not", Args: []*Term{a}, Sort: BoolSort})
}

func (p *Pool) And(as ...*Term) *Term {
	var out []*Term
	seen := map[int]bool{}
	for _, a := range as {
		if a.IsTrue() {
			continue
		}
		if a.IsFalse() {
			return a
		}
		if a.Op == "and" {
			for _, b := range a.Args {
				if !seen[b.id] {
					seen[b.id] = true
					out = append(out, b)
				}
			}
			continue
		}
		if !seen[a.id] {
			seen[a.id] = true
			out = append(out, a)
		}
	}
	for _, a := range out {
		if a.Op == "not" && seen[a.Args[0].id] {
			return p.False()
		}
	}
	if len(out) == 0 {
		return p.True()
	}
	if len(out) == 1 {
		return out[0]
	}
	sort.Slice(out, func(i, j int) bool { return out[i].id < out[j].id })
	return p.intern(&Term{Op: "and", Args: out, Sort: BoolSort})
}

func (p *Pool) Or(as ...*Term) *Term {
	var out []*Term
	seen := map[int]bool{}
	for _, a := range as {
		if a.IsFalse() {
			continue
		}
		if a.IsTrue() {
			return a
		}
		if a.Op == "or" {
			for _, b := range a.Args {
				if !seen[b.id] {
					seen[b.id] = true
					out = append(out, b)
				}
			}
			continue
		}
		if !seen[a.id] {
			seen[a.id] = true
			out = append(out, a)
		}
	}
	for _, a := range out {
		if a.Op == "not" && seen[a.Args[0].id] {
			return p.True()
		}
	}
	if len(out) == 0 {
		return p.False()
	}
	if len(out) == 1 {
		return out[0]
	}
	// (c ∧ x) ∨ (¬c ∧ x) → x  (common after merging both arms of a branch)
	if len(out) == 2 {
		if r := p.factorOr(out[0], out[1]); r != nil {
			return r
		}
	}
	sort.Slice(out, func(i, j int) bool { return out[i].id < out[j].id })
	return p.intern(&Term{Op: "or", Args: out, Sort: BoolSort})
}

func conjuncts(t *Term) []*Term {
	if t.Op == "and" {
		return t.Args
	}
	return []*Term{t}
}

func (p *Pool) factorOr(a, b *Term) *Term {
	ca, cb := conjuncts(a), conjuncts(b)
	inB := map[int]bool{}
	for _, x := range cb {
		inB[x.id] = true
	}
	inA := map[int]bool{}
	for _, x := range ca {
		inA[x.id] = true
	}
	var common, ra, rb []*Term
	for _, x := range ca {
		if inB[x.id] {
			common = append(common, x)
		} else {
			ra = append(ra, x)
		}
	}
	for _, x := range cb {
		if !inA[x.id] {
			rb = append(rb, x)
		}
	}
	if len(common) == 0 {
		return nil
	}
	if len(ra) == 1 && len(rb) == 1 && (p.Not(ra[0]) == rb[0]) {
		return p.And(common...)
	}
	if len(ra) == 0 || len(rb) == 0 {
		return p.And(common...)
	}
	rest := p.intern(&Term{Op: "or", Args: []*Term{p.And(ra...), p.And(rb...)}, Sort: BoolSort})
	return p.And(append(common, rest)...)
}

func (p *Pool) Implies(a, b *Term) *Term {
	if a.IsTrue() {
		return b
	}
	if a.IsFalse() || b.IsTrue() {
		return p.True()
	}
	if b.IsFalse() {
		return p.Not(a)
	}
	return p.intern(&Term{Op: "=>", Args: []*Term{a, b}, Sort: BoolSort})
}

func (p *Pool) Ite(c, a, b *Term) *Term {
	if c.IsTrue() {
		return a
	}
	if c.IsFalse() {
		return b
	}
	if a == b {
		return a
	}
	if a.Sort.Kind == SBool {
		if a.IsTrue() && b.IsFalse() {
			return c
		}
		if a.IsFalse() && b.IsTrue() {
			return p.Not(c)
		}
		if a.IsTrue() {
			return p.Or(c, b)
		}
		if b.IsFalse() {
			return p.And(c, a)
		}
		if a.IsFalse() {
			return p.And(p.Not(c), b)
		}
		if b.IsTrue() {
			return p.Or(p.Not(c), a)
		}
	}
	if c.Op == "not" {
		return p.Ite(c.Args[0], b, a)
	}
	// ite(c, x, ite(c, y, z)) -> ite(c, x, z)
	if b.Op == "ite" && b.Args[0] == c {
		return p.Ite(c, a, b.Args[2])
	}
	if a.Op == "ite" && a.Args[0] == c {
		return p.Ite(c, a.Args[1], b)
	}
	return p.intern(&Term{Op: "ite", Args: []*Term{c, a, b}, Sort: a.Sort})
}

func (p *Pool) Eq(a, b *Term) *Term {
	if a == b {
		return p.True()
	}
	if a.Op == "int" && b.Op == "int" {
		return p.Bool(a.Int.Cmp(b.Int) == 0)
	}
	if litIte(a) && b.Op == "int" {
		return p.Ite(a.Args[0], p.Eq(a.Args[1], b), p.Eq(a.Args[2], b))
	}
	if litIte(b) && a.Op == "int" {
		return p.Ite(b.Args[0], p.Eq(a, b.Args[1]), p.Eq(a, b.Args[2]))
	}
	if a.Sort.Kind == SBool {
		if a.IsTrue() {
			return b
		}
		if b.IsTrue() {
			return a
		}
		if a.IsFalse() {
			return p.Not(b)
		}
		if b.IsFalse() {
			return p.Not(a)
		}
	}
	if a.Sort.Kind == SInt && p.DistinctFn != nil && p.DistinctFn(a, b) {
		return p.False()
	}
	if a.Sort != b.Sort && a.Sort.String() != b.Sort.String() {
		panic(fmt.Sprintf("Eq: sort mismatch %s vs %s (%s, %s)", a.Sort, b.Sort, p.Show(a), p.Show(b)))
	}
	if a.id > b.id {
		a, b = b, a
	}
	return p.intern(&Term{Op: "=", Args: []*Term{a, b}, Sort: BoolSort})
}

func (p *Pool) Distinct(as ...*Term) *Term {
	if len(as) < 2 {
		return p.True()
	}
	return p.intern(&Term{Op: "distinct", Args: as, Sort: BoolSort})
}

func (p *Pool) arith(op string, a, b *Term) *Term {
	if a.Sort.Kind == SInt && a.Op == "int" && b.Op == "int" {
		r := new(big.Int)
		switch op {
		case "+":
			return p.IntBig(r.Add(a.Int, b.Int))
		case "-":
			return p.IntBig(r.Sub(a.Int, b.Int))
		case "*":
			return p.IntBig(r.Mul(a.Int, b.Int))
		case "div":
			if b.Int.Sign() != 0 {
				// SMT-LIB div: floor for positive divisor, ceil for negative (remainder >= 0)
				m := new(big.Int)
				r.DivMod(a.Int, b.Int, m) // Euclidean
				return p.IntBig(r)
			}
		case "mod":
			if b.Int.Sign() != 0 {
				m := new(big.Int)
				r.DivMod(a.Int, b.Int, m)
				return p.IntBig(m)
			}
		}
	}
	if a.Sort.Kind == SInt {
		switch op {
		case "+":
			if a.Op == "int" && a.Int.Sign() == 0 {
				return b
			}
			if b.Op == "int" && b.Int.Sign() == 0 {
				return a
			}
			// (x + c1) + c2
			if b.Op == "int" && a.Op == "+" && len(a.Args) == 2 && a.Args[1].Op == "int" {
				return p.arith("+", a.Args[0], p.IntBig(new(big.Int).Add(a.Args[1].Int, b.Int)))
			}
		case "-":
			if b.Op == "int" && b.Int.Sign() == 0 {
				return a
			}
			if a == b {
				return p.Int(0)
			}
			if b.Op == "int" {
				return p.arith("+", a, p.IntBig(new(big.Int).Neg(b.Int)))
			}
		case "*":
			if a.Op == "int" && a.Int.Cmp(big.NewInt(1)) == 0 {
				return b
			}
			if b.Op == "int" && b.Int.Cmp(big.NewInt(1)) == 0 {
				return a
			}
			if (a.Op == "int" && a.Int.Sign() == 0) || (b.Op == "int" && b.Int.Sign() == 0) {
				return p.Int(0)
			}
		case "div":
			if b.Op == "int" && b.Int.Cmp(big.NewInt(1)) == 0 {
				return a
			}
		}
	}
	return p.intern(&Term{Op: op, Args: []*Term{a, b}, Sort: a.Sort})
}

func (p *Pool) Add(a, b *Term) *Term { return p.arith("+", a, b) }
func (p *Pool) Sub(a, b *Term) *Term { return p.arith("-", a, b) }
func (p *Pool) Mul(a, b *Term) *Term { return p.arith("*", a, b) }
func (p *Pool) Div(a, b *Term) *Term { return p.arith("div", a, b) }
func (p *Pool) Mod(a, b *Term) *Term {
	// mod of something syntactically known to be in range
	if b.Op == "int" && b.Int.Sign() > 0 {
		if a.Op == "mod" && a.Args[1].Op == "int" && a.Args[1].Int.Cmp(b.Int) <= 0 && new(big.Int).Mod(b.Int, a.Args[1].Int).Sign() == 0 {
			return a
		}
	}
	return p.arith("mod", a, b)
}
func (p *Pool) RDiv(a, b *Term) *Term {
	return p.intern(&Term{Op: "/", Args: []*Term{a, b}, Sort: RealSort})
}
func (p *Pool) Neg(a *Term) *Term {
	if a.Op == "int" {
		return p.IntBig(new(big.Int).Neg(a.Int))
	}
	if a.Sort.Kind == SReal {
		return p.intern(&Term{Op: "-", Args: []*Term{a}, Sort: a.Sort})
	}
	return p.Sub(p.Int(0), a)
}

func litIte(t *Term) bool {
	return t.Op == "ite" && t.Args[1].Op == "int" && t.Args[2].Op == "int"
}

func (p *Pool) cmp(op string, a, b *Term) *Term {
	if litIte(a) && b.Op == "int" {
		return p.Ite(a.Args[0], p.cmp(op, a.Args[1], b), p.cmp(op, a.Args[2], b))
	}
	if litIte(b) && a.Op == "int" {
		return p.Ite(b.Args[0], p.cmp(op, a, b.Args[1]), p.cmp(op, a, b.Args[2]))
	}
	if a.Op == "int" && b.Op == "int" {
		c := a.Int.Cmp(b.Int)
		switch op {
		case "<":
			return p.Bool(c < 0)
		case "<=":
			return p.Bool(c <= 0)
		case ">":
			return p.Bool(c > 0)
		case ">=":
			return p.Bool(c >= 0)
		}
	}
	if a == b {
		return p.Bool(op == "<=" || op == ">=")
	}
	// normalise > and >= to < and <=
	switch op {
	case ">":
		return p.cmp("<", b, a)
	case ">=":
		return p.cmp("<=", b, a)
	}
	return p.intern(&Term{Op: op, Args: []*Term{a, b}, Sort: BoolSort})
}
func (p *Pool) Lt(a, b *Term) *Term { return p.cmp("<", a, b) }
func (p *Pool) Le(a, b *Term) *Term { return p.cmp("<=", a, b) }
func (p *Pool) Gt(a, b *Term) *Term { return p.cmp(">", a, b) }
func (p *Pool) Ge(a, b *Term) *Term { return p.cmp(">=", a, b) }

func (p *Pool) ToReal(a *Term) *Term {
	return p.intern(&Term{Op: "to_real", Args: []*Term{a}, Sort: RealSort})
}
func (p *Pool) ToInt(a *Term) *Term {
	return p.intern(&Term{Op: "to_int", Args: []*Term{a}, Sort: IntSort})
}

func (p *Pool) knownDistinct(a, b *Term) bool {
	if a.Op == "int" && b.Op == "int" {
		return a.Int.Cmp(b.Int) != 0
	}
	if p.DistinctFn != nil {
		return p.DistinctFn(a, b)
	}
	return false
}

func (p *Pool) Select(a, i *Term) *Term {
	if a.Sort.Kind != SArray {
		panic("select on non-array " + a.Sort.String())
	}
	key := [2]int{a.id, i.id}
	if r, ok := p.selMemo[key]; ok {
		return r
	}
	r := p.select1(a, i)
	p.selMemo[key] = r
	return r
}

func (p *Pool) select1(a, i *Term) *Term {
	for a.Op == "store" {
		if a.Args[1] == i {
			return a.Args[2]
		}
		if p.knownDistinct(a.Args[1], i) {
			a = a.Args[0]
			continue
		}
		break
	}
	if a.Op == "constarr" {
		return a.Args[0]
	}
	if a.Op == "ite" && (a.Args[1].Op == "store" || a.Args[2].Op == "store" || a.Args[1].Op == "ite" || a.Args[2].Op == "ite") {
		x, y := p.Select(a.Args[1], i), p.Select(a.Args[2], i)
		if x == y {
			return x
		}
		// keep the pushed-down form only when it actually simplified one side
		if (x.Op != "select" || x.Args[0] != a.Args[1]) || (y.Op != "select" || y.Args[0] != a.Args[2]) {
			return p.Ite(a.Args[0], x, y)
		}
	}
	return p.intern(&Term{Op: "select", Args: []*Term{a, i}, Sort: a.Sort.Elem})
}

func (p *Pool) Store(a, i, v *Term) *Term {
	if a.Sort.Kind != SArray {
		panic("store on non-array")
	}
	if v.Sort.String() != a.Sort.Elem.String() {
		panic(fmt.Sprintf("store: elem sort mismatch %s vs %s", v.Sort, a.Sort.Elem))
	}
	if a.Op == "store" && a.Args[1] == i {
		a = a.Args[0]
	}
	if v.Op == "select" && v.Args[0] == a && v.Args[1] == i {
		return a
	}
	return p.intern(&Term{Op: "store", Args: []*Term{a, i, v}, Sort: a.Sort})
}

// ConstArray: ((as const (Array I E)) v)
func (p *Pool) ConstArray(s *Sort, v *Term) *Term {
	return p.intern(&Term{Op: "constarr", Name: s.String(), Args: []*Term{v}, Sort: s})
}

func (p *Pool) App(f *FuncDecl, args ...*Term) *Term {
	if len(args) != len(f.Params) {
		panic(fmt.Sprintf("App %s: arity %d vs %d", f.Name, len(args), len(f.Params)))
	}
	for i, a := range args {
		if a.Sort.String() != f.Params[i].String() {
			panic(fmt.Sprintf("App %s: arg %d sort %s, want %s", f.Name, i, a.Sort, f.Params[i]))
		}
	}
	return p.intern(&Term{Op: "app", Name: f.Name, Fn: f, Args: args, Sort: f.Ret})
}

// Datatype construction / access
func (p *Pool) Mk(s *Sort, fields ...*Term) *Term {
	if len(fields) != len(s.Fields) {
		panic(fmt.Sprintf("Mk %s: %d fields, want %d", s.Name, len(fields), len(s.Fields)))
	}
	// mk(f0(x), f1(x), ...) -> x
	if len(fields) > 0 && fields[0].Op == "acc" && fields[0].Args[0].Sort == s {
		x := fields[0].Args[0]
		same := true
		for i, f := range fields {
			if !(f.Op == "acc" && f.Args[0] == x && f.Name == s.Fields[i].Name) {
				same = false
				break
			}
		}
		if same {
			return x
		}
	}
	for i, f := range fields {
		if f.Sort.String() != s.Fields[i].Sort.String() {
			panic(fmt.Sprintf("Mk %s: field %s has sort %s, want %s", s.Name, s.Fields[i].Name, f.Sort, s.Fields[i].Sort))
		}
	}
	return p.intern(&Term{Op: "mk", Name: s.Ctor, Args: fields, Sort: s})
}

func (p *Pool) Acc(x *Term, i int) *Term {
	s := x.Sort
	if s.Kind != SData {
		panic("Acc on non-datatype " + s.String())
	}
	if x.Op == "mk" {
		return x.Args[i]
	}
	if x.Op == "ite" {
		// push accessors through ite of constructors to keep terms small
		if x.Args[1].Op == "mk" || x.Args[2].Op == "mk" {
			return p.Ite(x.Args[0], p.Acc(x.Args[1], i), p.Acc(x.Args[2], i))
		}
	}
	return p.intern(&Term{Op: "acc", Name: s.Fields[i].Name, Args: []*Term{x}, Sort: s.Fields[i].Sort})
}

func (p *Pool) With(x *Term, i int, v *Term) *Term {
	s := x.Sort
	fs := make([]*Term, len(s.Fields))
	for j := range s.Fields {
		if j == i {
			fs[j] = v
		} else {
			fs[j] = p.Acc(x, j)
		}
	}
	return p.Mk(s, fs...)
}

func (p *Pool) Forall(bound []*Term, body *Term, pats ...[]*Term) *Term {
	if body.IsTrue() || body.IsFalse() {
		return body
	}
	if len(bound) == 0 {
		return body
	}
	t := p.intern(&Term{Op: "forall", Bound: bound, Args: []*Term{body}, Pats: pats, Sort: BoolSort})
	t.hasBV = p.stillHasFreeBound(t)
	return t
}

func (p *Pool) Exists(bound []*Term, body *Term) *Term {
	if body.IsTrue() || body.IsFalse() {
		return body
	}
	t := p.intern(&Term{Op: "exists", Bound: bound, Args: []*Term{body}, Sort: BoolSort})
	t.hasBV = p.stillHasFreeBound(t)
	return t
}

// stillHasFreeBound: does the quantified term mention bound variables other than its own?
func (p *Pool) stillHasFreeBound(q *Term) bool {
	own := map[*Term]bool{}
	for _, b := range q.Bound {
		own[b] = true
	}
	seen := map[int]bool{}
	var rec func(t *Term, own map[*Term]bool) bool
	rec = func(t *Term, own map[*Term]bool) bool {
		if !t.hasBV {
			return false
		}
		if t.Op == "bound" {
			return !own[t]
		}
		if seen[t.id] && len(t.Bound) == 0 {
			return false
		}
		seen[t.id] = true
		o := own
		if len(t.Bound) > 0 {
			o = map[*Term]bool{}
			for k := range own {
				o[k] = true
			}
			for _, b := range t.Bound {
				o[b] = true
			}
		}
		for _, a := range t.Args {
			if rec(a, o) {
				return true
			}
		}
		return false
	}
	return rec(q.Args[0], own)
}

// Subst replaces terms (consts or bound vars) by terms.
func (p *Pool) Subst(t *Term, m map[*Term]*Term) *Term {
	memo := map[*Term]*Term{}
	var rec func(t *Term) *Term
	rec = func(t *Term) *Term {
		if r, ok := m[t]; ok {
			return r
		}
		if len(t.Args) == 0 {
			return t
		}
		if r, ok := memo[t]; ok {
			return r
		}
		args := make([]*Term, len(t.Args))
		ch := false
		for i, a := range t.Args {
			args[i] = rec(a)
			if args[i] != a {
				ch = true
			}
		}
		r := t
		if ch {
			r = p.rebuild(t, args)
		}
		memo[t] = r
		return r
	}
	return rec(t)
}

func (p *Pool) rebuild(t *Term, a []*Term) *Term {
	switch t.Op {
	case "not":
		return p.Not(a[0])
	case "and":
		return p.And(a...)
	case "or":
		return p.Or(a...)
	case "=>":
		return p.Implies(a[0], a[1])
	case "ite":
		return p.Ite(a[0], a[1], a[2])
	case "=":
		return p.Eq(a[0], a[1])
	case "distinct":
		return p.Distinct(a...)
	case "+", "*", "div":
		return p.arith(t.Op, a[0], a[1])
	case "mod":
		return p.Mod(a[0], a[1])
	case "-":
		if len(a) == 1 {
			return p.Neg(a[0])
		}
		return p.arith("-", a[0], a[1])
	case "/":
		return p.RDiv(a[0], a[1])
	case "<", "<=", ">", ">=":
		return p.cmp(t.Op, a[0], a[1])
	case "to_real":
		return p.ToReal(a[0])
	case "to_int":
		return p.ToInt(a[0])
	case "select":
		return p.Select(a[0], a[1])
	case "store":
		return p.Store(a[0], a[1], a[2])
	case "constarr":
		return p.ConstArray(t.Sort, a[0])
	case "app":
		return p.App(t.Fn, a...)
	case "mk":
		return p.Mk(t.Sort, a...)
	case "acc":
		for i, f := range a[0].Sort.Fields {
			if f.Name == t.Name {
				return p.Acc(a[0], i)
			}
		}
		panic("acc rebuild")
	case "forall":
		return p.Forall(t.Bound, a[0], t.Pats...)
	case "exists":
		return p.Exists(t.Bound, a[0])
	}
	panic("rebuild: " + t.Op)
}

// ---------------------------------------------------------------- printing

func (p *Pool) Show(t *Term) string {
	var sb strings.Builder
	p.print(&sb, t, nil, 0)
	s := sb.String()
	if len(s) > 400 {
		s = s[:400] + "…"
	}
	return s
}

func intLit(v *big.Int) string {
	if v.Sign() < 0 {
		return "(- " + new(big.Int).Neg(v).String() + ")"
	}
	return v.String()
}

func (p *Pool) print(sb *strings.Builder, t *Term, names map[int]string, depth int) {
	if names != nil {
		if n, ok := names[t.id]; ok {
			sb.WriteString(n)
			return
		}
	}
	switch t.Op {
	case "const", "bound":
		sb.WriteString(quoteSym(t.Name))
	case "int":
		sb.WriteString(intLit(t.Int))
	case "real":
		r, _ := new(big.Rat).SetString(t.Name)
		if r.IsInt() {
			n := r.Num()
			if n.Sign() < 0 {
				sb.WriteString("(- " + new(big.Int).Neg(n).String() + ".0)")
			} else {
				sb.WriteString(n.String() + ".0")
			}
		} else {
			num, den := r.Num(), r.Denom()
			if num.Sign() < 0 {
				sb.WriteString("(- (/ " + new(big.Int).Neg(num).String() + ".0 " + den.String() + ".0))")
			} else {
				sb.WriteString("(/ " + num.String() + ".0 " + den.String() + ".0)")
			}
		}
	case "true", "false":
		sb.WriteString(t.Op)
	case "constarr":
		sb.WriteString("((as const " + t.Sort.String() + ") ")
		p.print(sb, t.Args[0], names, depth+1)
		sb.WriteString(")")
	case "forall", "exists":
		sb.WriteString("(" + t.Op + " (")
		for _, b := range t.Bound {
			sb.WriteString("(" + quoteSym(b.Name) + " " + b.Sort.String() + ")")
		}
		sb.WriteString(") ")
		if len(t.Pats) > 0 {
			sb.WriteString("(! ")
		}
		p.print(sb, t.Args[0], names, depth+1)
		if len(t.Pats) > 0 {
			for _, ps := range t.Pats {
				sb.WriteString(" :pattern (")
				for i, x := range ps {
					if i > 0 {
						sb.WriteString(" ")
					}
					p.print(sb, x, names, depth+1)
				}
				sb.WriteString(")")
			}
			sb.WriteString(")")
		}
		sb.WriteString(")")
	default:
		name := t.Op
		if t.Op == "app" || t.Op == "mk" || t.Op == "acc" {
			name = quoteSym(t.Name)
			if t.Op == "mk" {
				name = t.Name
			}
		}
		if len(t.Args) == 0 {
			sb.WriteString(name)
			return
		}
		sb.WriteString("(" + name)
		for _, a := range t.Args {
			sb.WriteString(" ")
			p.print(sb, a, names, depth+1)
		}
		sb.WriteString(")")
	}
}

// Script renders a satisfiability query: assert every term in asserts.
// Shared closed sub-terms are hoisted into define-funs so the text stays linear.
func (p *Pool) Script(asserts []*Term, getModelOf []*Term, logicOpts string) string {
	// reachable closed terms and reference counts
	refs := map[int]int{}
	var order []*Term
	seen := map[int]bool{}
	usedSorts := map[*Sort]bool{}
	usedFuncs := map[*FuncDecl]bool{}
	usedConsts := map[*Term]bool{}
	var noteSort func(s *Sort)
	noteSort = func(s *Sort) {
		if s == nil || usedSorts[s] {
			return
		}
		usedSorts[s] = true
		if s.Kind == SArray {
			noteSort(s.Index)
			noteSort(s.Elem)
		}
		if s.Kind == SData {
			for _, f := range s.Fields {
				noteSort(f.Sort)
			}
		}
	}
	var visit func(t *Term)
	var visitFn func(f *FuncDecl)
	visitFn = func(f *FuncDecl) {
		if usedFuncs[f] {
			return
		}
		usedFuncs[f] = true
		for _, s := range f.Params {
			noteSort(s)
		}
		noteSort(f.Ret)
		if f.DefBody != nil {
			visit(f.DefBody)
		}
	}
	visit = func(t *Term) {
		refs[t.id]++
		if seen[t.id] {
			return
		}
		seen[t.id] = true
		noteSort(t.Sort)
		if t.Op == "const" {
			usedConsts[t] = true
		}
		if t.Fn != nil {
			visitFn(t.Fn)
		}
		for _, b := range t.Bound {
			noteSort(b.Sort)
		}
		for _, a := range t.Args {
			visit(a)
		}
		for _, ps := range t.Pats {
			for _, x := range ps {
				visit(x)
			}
		}
		order = append(order, t) // post-order: children first
	}
	for _, a := range asserts {
		visit(a)
	}
	for _, a := range getModelOf {
		visit(a)
	}
	var sb strings.Builder
	sb.WriteString(logicOpts)
	// sorts
	var us []string
	for s := range usedSorts {
		if s.Kind == SUninterp {
			us = append(us, s.Name)
		}
	}
	sort.Strings(us)
	for _, n := range us {
		sb.WriteString("(declare-sort " + n + " 0)\n")
	}
	for _, s := range p.dOrder {
		if !usedSorts[s] {
			continue
		}
		sb.WriteString("(declare-datatypes ((" + s.Name + " 0)) (((" + s.Ctor)
		for _, f := range s.Fields {
			sb.WriteString(" (" + quoteSym(f.Name) + " " + f.Sort.String() + ")")
		}
		sb.WriteString("))))\n")
	}
	for _, c := range p.cOrder {
		if usedConsts[c] {
			sb.WriteString("(declare-fun " + quoteSym(c.Name) + " () " + c.Sort.String() + ")\n")
		}
	}
	for _, f := range p.fOrder {
		if !usedFuncs[f] {
			continue
		}
		if f.DefBody == nil || (f.Rec && !p.RecAsDefine) {
			sb.WriteString("(declare-fun " + quoteSym(f.Name) + " (")
			for i, s := range f.Params {
				if i > 0 {
					sb.WriteString(" ")
				}
				sb.WriteString(s.String())
			}
			sb.WriteString(") " + f.Ret.String() + ")\n")
		}
	}
	// defined functions in dependency order
	emitted := map[*FuncDecl]bool{}
	var emit func(f *FuncDecl)
	var deps func(t *Term, seen map[int]bool, f *FuncDecl)
	deps = func(t *Term, seen map[int]bool, self *FuncDecl) {
		if seen[t.id] {
			return
		}
		seen[t.id] = true
		if t.Fn != nil && t.Fn != self && t.Fn.DefBody != nil {
			emit(t.Fn)
		}
		for _, a := range t.Args {
			deps(a, seen, self)
		}
	}
	emit = func(f *FuncDecl) {
		if emitted[f] {
			return
		}
		emitted[f] = true
		deps(f.DefBody, map[int]bool{}, f)
		if f.Rec && !p.RecAsDefine {
			// recursive spec functions: uninterpreted + unfolding axiom triggered by the application itself
			// (measured: define-fun-rec times out where this form is decided in < 1 s)
			sb.WriteString("(assert (forall (")
			for _, b := range f.DefParams {
				sb.WriteString("(" + quoteSym(b.Name) + " " + b.Sort.String() + ")")
			}
			sb.WriteString(") (! (= (" + quoteSym(f.Name))
			for _, b := range f.DefParams {
				sb.WriteString(" " + quoteSym(b.Name))
			}
			sb.WriteString(") ")
			p.print(&sb, f.DefBody, nil, 0)
			sb.WriteString(") :pattern ((" + quoteSym(f.Name))
			for _, b := range f.DefParams {
				sb.WriteString(" " + quoteSym(b.Name))
			}
			sb.WriteString(")))))\n")
			return
		}
		kw := "define-fun"
		if f.Rec {
			kw = "define-fun-rec"
		}
		sb.WriteString("(" + kw + " " + quoteSym(f.Name) + " (")
		for _, b := range f.DefParams {
			sb.WriteString("(" + quoteSym(b.Name) + " " + b.Sort.String() + ")")
		}
		sb.WriteString(") " + f.Ret.String() + " ")
		p.print(&sb, f.DefBody, nil, 0)
		sb.WriteString(")\n")
	}
	for _, f := range p.fOrder {
		if usedFuncs[f] && f.DefBody != nil {
			emit(f)
		}
	}
	// hoist shared closed non-leaf terms
	names := map[int]string{}
	for _, t := range order {
		if t.hasBV || len(t.Args) == 0 {
			continue
		}
		if refs[t.id] < 2 {
			continue
		}
		n := fmt.Sprintf("t!%d", t.id)
		sb.WriteString("(define-fun " + n + " () " + t.Sort.String() + " ")
		// print without using its own name
		p.print(&sb, t, without(names, t.id), 0)
		sb.WriteString(")\n")
		names[t.id] = n
	}
	for _, a := range asserts {
		sb.WriteString("(assert ")
		p.print(&sb, a, names, 0)
		sb.WriteString(")\n")
	}
	sb.WriteString("(check-sat)\n")
	if len(getModelOf) > 0 {
		sb.WriteString("(get-value (")
		for _, t := range getModelOf {
			p.print(&sb, t, names, 0)
			sb.WriteString(" ")
		}
		sb.WriteString("))\n")
	}
	return sb.String()
}

func without(m map[int]string, id int) map[int]string {
	if _, ok := m[id]; !ok {
		return m
	}
	c := map[int]string{}
	for k, v := range m {
		if k != id {
			c[k] = v
		}
	}
	return c
}

// HasQuant reports whether the term contains a quantifier.
func (t *Term) HasQuant(memo map[int]bool) bool {
	if v, ok := memo[t.id]; ok {
		return v
	}
	r := t.Op == "forall" || t.Op == "exists"
	if !r {
		for _, a := range t.Args {
			if a.HasQuant(memo) {
				r = true
				break
			}
		}
	}
	memo[t.id] = r
	return r
}
