package main

// Contract files: //@ comment blocks in /repo/<pkg>/zz_verif_contracts.go (build tag verif)
// and /verif/contracts/*.contracts for assumed contracts on dependencies.

import (
	"bufio"
	"fmt"
	"go/ast"
	"go/parser"
	"go/types"
	"os"
	"path/filepath"
	"regexp"
	"strconv"
	"strings"
)

type Clause struct {
	Label string
	Text  string
	Expr  ast.Expr
	File  string
	Line  int
	Props []string // properties this clause belongs to (defaults to the block's)
	Local bool     // a postcondition that is proved for the function but not handed to its callers
}

type LoopSpec struct {
	Assumed    []*Clause
	Steps      []*Clause // two-state predicates over one iteration: old(...) is the loop head, plain names the back edge
	Unroll     int
	Invariants []*Clause
	Decreases  *Clause
	Modifies   []*Clause
}

type CallSpec struct { // per call-site overrides inside a function
	Callee  string
	Ordinal int
	Asserts []*Clause
	Assumes []*Clause
}

type FuncContract struct {
	Key            string // RelString form within the package, e.g. "(*T).Name", "Name", "(*T).Name$1"
	PkgPath        string
	Header         string
	File           string
	Line           int
	Props          []string
	Requires       []*Clause
	Ensures        []*Clause
	Modifies       []*Clause
	HasMod         bool
	Loops          map[int]*LoopSpec
	Inline         bool // callers execute the body in place
	Trusted        bool // body not checked (assumed contract)
	Pure           bool // result is an uninterpreted function of the arguments; no effects
	Opaque         bool // fresh result, no effects
	NonNil         bool // result (first) is non-nil
	NoPanic        bool // generate nopanic obligations (default true for checked functions)
	MayPanic       bool
	Params         []string // for extern contracts: names for receiver+params
	FreeNames      []string // a closure's contract: positional names of the captured variables
	Asserts        map[string][]*Clause
	CallSpecs      []*CallSpec
	Used           bool
	NoCalls        bool
	NilCalls       bool // `nilcalls`: calls of function values are checked against nil in this function
	SQLTexts       []string
	Behaviors      []*FuncContract // further behaviours of the same function (each verified separately)
	Behavior       string
	AssumedEnsures []*Clause      // postconditions callers may use but the body check does not establish (listed as assumptions)
	Splits         []*SplitSpec   // case splits applied to every proof obligation of the function
	RecvType       types.Type     // set on a resolved "sameas" contract: the implementation's receiver type
	Threads        *Clause        // `threads tx`: every store handle this function passes on is its parameter tx (when that is not nil)
	ThreadsParam   string
	OnlyCallers    []string       // calledonlyby: the only functions (name substrings) that may call this one
	ConstTexts     []string       // string constants that must occur verbatim in the function (configuration the assumed semantics rest on)
	SameAs         string         // interface method contract = the contract of this implementation ("pkgpath.(*T).M"), assumed to be the dynamic callee
	LazySpecs      bool           // at call sites, recursive spec functions in this contract are left folded (unfolded by the solver on demand)
	Definitional   bool           // postconditions that pin the fresh result are applied as definitions (term rewriting) at call sites
	GhostUpd       []*GhostUpdate // ghost code executed at every return, before the postconditions
	Allow          []string
	SchemaOf       string
}

type SpecFn struct {
	PkgPath string
	Name    string
	Params  []SpecParam
	Ret     string
	Body    ast.Expr
	BodyTxt string
	File    string
	Line    int
}

type SpecParam struct{ Name, Type string }

type Lemma struct {
	PkgPath  string
	Name     string
	Params   []SpecParam
	Requires []*Clause
	Ensures  []*Clause
	Props    []string
	File     string
	Line     int
}

type Axiom struct {
	Only     string // "@only <substring>": the axiom is added only when the function under check has this in its name
	Triggers []ast.Expr
	PkgPath  string
	Name     string
	Params   []SpecParam
	Body     *Clause
}

// Schema: an obligation schema instantiated over a set of functions enumerated from go/types on every run.
type Schema struct {
	Kind     string // "exported-methods"
	Type     string // receiver type, e.g. *BridgeSync
	PkgPath  string
	Props    []string
	Except   []string
	Requires []*Clause
	Allow    []string // callees that may be reached (executed in place); every other non-opaque call must be unreachable
	NoCalls  bool
	ErrExpr  string
	Zero     bool
	File     string
	Line     int
}

// SplitSpec: "split <expr over the inputs> in lo..hi": every obligation is proved separately for expr == lo, ..., expr == hi
// and for expr outside the range (so the split is exhaustive by construction).
type SplitSpec struct {
	Expr   *Clause
	Lo, Hi int
}

// ConstGlobal: a package-level []byte variable that is initialised once and never reassigned (assumption):
// "constglobal <name> len <n> content <expr>".
type ConstGlobal struct {
	PkgPath string
	Name    string
	Len     int
	Content *Clause
}

// GhostUpdate: "set loc := expr" or "choose loc with pred" (assign-such-that; pred may mention the new value of loc).
type GhostUpdate struct {
	Choose bool
	Loc    *Clause
	Expr   *Clause
}

type GhostField struct {
	Name   string
	Sort   string
	OfType string
}

// FilePin: a text that must occur (whitespace-normalised) in a non-Go file next to the contract file, e.g. a clause of an
// embedded SQL migration that an assumed semantics rests on ("filepin C04,C07 migrations/x.sql \"...\"").
type FilePin struct {
	Dir   string
	Props []string
	Path  string
	Text  string
	File  string
	Line  int
}

type GhostVar struct {
	PkgPath string
	Name    string
	Type    string
}

type ContractSet struct {
	Funcs        map[string]*FuncContract // pkgpath + "." + key
	Ifaces       map[string]*FuncContract // pkgpath.Iface.Method
	Externs      map[string]*FuncContract // ssa fn.String()
	Specs        map[string]*SpecFn
	Lemmas       []*Lemma
	Axioms       []*Axiom
	FilePins     []*FilePin
	Ghosts       map[string]*GhostVar
	GhostFields  map[string]*GhostField
	ConstGlobals map[string]*ConstGlobal // "pkgpath.name"
	Schemas      []*Schema
	OpaquePats   []string
	Errors       []string
}

func NewContractSet() *ContractSet {
	return &ContractSet{Funcs: map[string]*FuncContract{}, Ifaces: map[string]*FuncContract{}, Externs: map[string]*FuncContract{},
		Specs: map[string]*SpecFn{}, Ghosts: map[string]*GhostVar{}, GhostFields: map[string]*GhostField{}, ConstGlobals: map[string]*ConstGlobal{}}
}

var implRe = regexp.MustCompile(`==>`)

func parseSpecExpr(txt string) (ast.Expr, error) {
	t := implRe.ReplaceAllString(txt, "|| __IMPL__ ||")
	e, err := parser.ParseExpr(t)
	if err != nil {
		return nil, fmt.Errorf("cannot parse %q: %v", txt, err)
	}
	return e, nil
}

var headerRe = regexp.MustCompile(`^func\s*(\(([^)]*)\))?\s*([A-Za-z_0-9$.]+)`)

// parseFuncHeader turns "func (c *T) Name" into "(*T).Name".
func parseFuncHeader(h string) (string, error) {
	m := headerRe.FindStringSubmatch(h)
	if m == nil {
		return "", fmt.Errorf("bad func header %q", h)
	}
	name := m[3]
	if m[1] == "" {
		return name, nil
	}
	recv := strings.TrimSpace(m[2])
	parts := strings.Fields(recv)
	typ := parts[len(parts)-1]
	return "(" + typ + ")." + name, nil
}

func parseParams(s string) []SpecParam {
	s = strings.TrimSpace(s)
	if s == "" {
		return nil
	}
	var out []SpecParam
	var pendingNames []string
	for _, part := range strings.Split(s, ",") {
		f := strings.Fields(strings.TrimSpace(part))
		if len(f) == 1 {
			pendingNames = append(pendingNames, f[0])
			continue
		}
		typ := strings.Join(f[1:], " ")
		for _, n := range pendingNames {
			out = append(out, SpecParam{n, typ})
		}
		pendingNames = nil
		out = append(out, SpecParam{f[0], typ})
	}
	return out
}

var clauseKw = map[string]bool{"behavior": true, "ensuresassumed": true, "ensureslocal": true, "split": true, "definitional": true, "lazyspecs": true, "sameas": true, "consttext": true, "calledonlyby": true, "threads": true, "nilcalls": true, "set": true, "choose": true, "sqltext": true, "except": true, "allowcalls": true, "nocalls": true, "ensureserror": true, "ensureszero": true, "requires": true, "ensures": true, "modifies": true, "loop": true, "inline": true,
	"trusted": true, "pure": true, "opaque": true, "nonnil": true, "props": true, "maypanic": true, "params": true,
	"assert": true, "call": true}

var blockKw = map[string]bool{"func": true, "spec": true, "lemma": true, "axiom": true, "ghost": true,
	"interface": true, "extern": true, "opaquepat": true, "filepin": true, "package": true, "schema": true, "constglobal": true}

func firstWord(s string) (string, string) {
	s = strings.TrimSpace(s)
	i := 0
	for i < len(s) && (s[i] >= 'a' && s[i] <= 'z') {
		i++
	}
	return s[:i], s[i:]
}

// ParseFile reads //@ lines (or, for .contracts files, all non-comment lines).
func (cs *ContractSet) ParseFile(path, pkgPath string) error {
	f, err := os.Open(path)
	if err != nil {
		return err
	}
	defer f.Close()
	raw := strings.HasSuffix(path, ".contracts")
	type ln struct {
		n int
		s string
	}
	var lines []ln
	sc := bufio.NewScanner(f)
	sc.Buffer(make([]byte, 1<<20), 1<<20)
	n := 0
	for sc.Scan() {
		n++
		s := sc.Text()
		if raw {
			t := strings.TrimSpace(s)
			if t == "" || strings.HasPrefix(t, "#") {
				continue
			}
			lines = append(lines, ln{n, s})
		} else {
			t := strings.TrimSpace(s)
			if strings.HasPrefix(t, "//@") {
				body := strings.TrimPrefix(t, "//@")
				if strings.TrimSpace(body) == "" {
					continue
				}
				if i := strings.Index(body, " //"); i >= 0 && !strings.Contains(body, "\"") {
					body = body[:i]
				}
				lines = append(lines, ln{n, body})
			}
		}
	}
	// group into logical lines: a line that starts with a keyword starts a new item
	type item struct {
		n    int
		kw   string
		rest string
	}
	var items []item
	for _, l := range lines {
		kw, rest := firstWord(l.s)
		isNew := false
		if blockKw[kw] || clauseKw[kw] {
			// must be followed by space, '[' or end
			if rest == "" || rest[0] == ' ' || rest[0] == '[' || rest[0] == '\t' {
				isNew = true
			}
		}
		if isNew {
			items = append(items, item{l.n, kw, strings.TrimSpace(rest)})
		} else if len(items) > 0 {
			items[len(items)-1].rest += " " + strings.TrimSpace(l.s)
		} else {
			cs.Errors = append(cs.Errors, fmt.Sprintf("%s:%d: stray contract line", path, l.n))
		}
	}
	var cur *FuncContract
	var curSchema *Schema
	var curLemma *Lemma
	var curProps []string
	mkClause := func(it item, props []string) *Clause {
		txt := it.rest
		label := ""
		if strings.HasPrefix(txt, "[") {
			j := strings.Index(txt, "]")
			label = txt[1:j]
			txt = strings.TrimSpace(txt[j+1:])
		}
		e, err := parseSpecExpr(txt)
		if err != nil {
			cs.Errors = append(cs.Errors, fmt.Sprintf("%s:%d: %v", path, it.n, err))
			return nil
		}
		return &Clause{Label: label, Text: txt, Expr: e, File: path, Line: it.n, Props: props}
	}
	for _, it := range items {
		if it.kw == "func" || it.kw == "extern" || it.kw == "interface" || it.kw == "spec" || it.kw == "ghost" || it.kw == "lemma" || it.kw == "axiom" || it.kw == "package" {
			curSchema = nil
		}
		if curSchema != nil {
			switch it.kw {
			case "props":
				curSchema.Props = strings.Fields(it.rest)
			case "except":
				curSchema.Except = append(curSchema.Except, strings.Fields(it.rest)...)
			case "allowcalls":
				curSchema.Allow = append(curSchema.Allow, strings.Fields(it.rest)...)
			case "nocalls":
				curSchema.NoCalls = true
			case "ensureserror":
				curSchema.ErrExpr = it.rest
			case "ensureszero":
				curSchema.Zero = true
			case "requires":
				if cl := mkClause(it, curSchema.Props); cl != nil {
					curSchema.Requires = append(curSchema.Requires, cl)
				}
			}
			continue
		}
		switch it.kw {
		case "schema":
			cur, curLemma = nil, nil
			f := strings.Fields(it.rest)
			if len(f) >= 2 {
				curSchema = &Schema{Kind: f[0], Type: f[1], PkgPath: pkgPath, File: path, Line: it.n}
				cs.Schemas = append(cs.Schemas, curSchema)
			}
		case "package":
			pkgPath = it.rest
			cur, curLemma = nil, nil
		case "func", "extern", "interface":
			curLemma = nil
			fc := &FuncContract{PkgPath: pkgPath, Header: it.rest, File: path, Line: it.n, Loops: map[int]*LoopSpec{}, Asserts: map[string][]*Clause{}}
			switch it.kw {
			case "func":
				key, err := parseFuncHeader("func " + it.rest)
				if err != nil {
					cs.Errors = append(cs.Errors, fmt.Sprintf("%s:%d: %v", path, it.n, err))
					continue
				}
				fc.Key = key
				// optional positional names, receiver first: "func (t *T) M (t, tx, leaf)" - the clauses then keep working
				// when the code renames a parameter
				if m := headerRe.FindStringIndex("func " + it.rest); m != nil {
					tail := strings.TrimSpace(("func " + it.rest)[m[1]:])
					if strings.HasPrefix(tail, "(") && strings.HasSuffix(tail, ")") {
						inner := tail[1 : len(tail)-1]
						// "(params | captured variables)": a closure's contract also names what it captures, in order
						if k := strings.Index(inner, "|"); k >= 0 {
							for _, q := range strings.Split(inner[k+1:], ",") {
								if q = strings.TrimSpace(q); q != "" {
									fc.FreeNames = append(fc.FreeNames, q)
								}
							}
							inner = inner[:k]
						}
						for _, q := range strings.Split(inner, ",") {
							if q = strings.TrimSpace(q); q != "" {
								fc.Params = append(fc.Params, q)
							}
						}
					}
				}
				if prev, dup := cs.Funcs[pkgPath+"."+key]; dup {
					// a second block for the same function is an additional behaviour (named by its "behavior" clause)
					prev.Behaviors = append(prev.Behaviors, fc)
					fc.Behavior = fmt.Sprintf("b%d", len(prev.Behaviors))
				} else {
					cs.Funcs[pkgPath+"."+key] = fc
				}
			case "extern":
				// extern <ssa name> [(p0, p1, ...)]
				name := it.rest
				if i := strings.Index(name, " ("); i >= 0 {
					ps := strings.TrimSuffix(strings.TrimSpace(name[i+2:]), ")")
					for _, q := range strings.Split(ps, ",") {
						fc.Params = append(fc.Params, strings.TrimSpace(q))
					}
					name = name[:i]
				}
				fc.Key = strings.TrimSpace(name)
				fc.Trusted = true
				cs.Externs[fc.Key] = fc
			case "interface":
				name := it.rest
				if i := strings.Index(name, " ("); i >= 0 {
					ps := strings.TrimSuffix(strings.TrimSpace(name[i+2:]), ")")
					for _, q := range strings.Split(ps, ",") {
						fc.Params = append(fc.Params, strings.TrimSpace(q))
					}
					name = name[:i]
				}
				fc.Key = strings.TrimSpace(name)
				fc.Trusted = true
				cs.Ifaces[fc.Key] = fc
			}
			cur = fc
			curProps = nil
		case "spec":
			cur, curLemma = nil, nil
			// spec fn name(params) type [= expr]
			rest := strings.TrimSpace(strings.TrimPrefix(it.rest, "fn"))
			i := strings.Index(rest, "(")
			j := matchParen(rest, i)
			if i < 0 || j < 0 {
				cs.Errors = append(cs.Errors, fmt.Sprintf("%s:%d: bad spec fn", path, it.n))
				continue
			}
			sf := &SpecFn{PkgPath: pkgPath, Name: strings.TrimSpace(rest[:i]), Params: parseParams(rest[i+1 : j]), File: path, Line: it.n}
			tail := strings.TrimSpace(rest[j+1:])
			if k := strings.Index(tail, "="); k >= 0 && !strings.HasPrefix(tail[k:], "==") {
				sf.Ret = strings.TrimSpace(tail[:k])
				sf.BodyTxt = strings.TrimSpace(tail[k+1:])
				e, err := parseSpecExpr(sf.BodyTxt)
				if err != nil {
					cs.Errors = append(cs.Errors, fmt.Sprintf("%s:%d: %v", path, it.n, err))
					continue
				}
				sf.Body = e
			} else {
				sf.Ret = tail
			}
			cs.Specs[sf.Name] = sf
		case "ghost":
			cur, curLemma = nil, nil
			if strings.HasPrefix(it.rest, "field") {
				// ghost field <name> <sort> [of <pkgpath.Type>]
				f := strings.Fields(strings.TrimPrefix(it.rest, "field"))
				if len(f) >= 2 {
					gf := &GhostField{Name: f[0], Sort: f[1]}
					if len(f) >= 4 && f[2] == "of" {
						gf.OfType = f[3]
					}
					cs.GhostFields[f[0]] = gf
				}
				continue
			}
			f := strings.Fields(strings.TrimPrefix(it.rest, "var"))
			if len(f) >= 2 {
				if g, dup := cs.Ghosts[f[0]]; dup && g.PkgPath != pkgPath {
					// ghost variables share one name space: two packages declaring the same name would silently talk
					// about one variable
					cs.Errors = append(cs.Errors, fmt.Sprintf("%s:%d: ghost variable %s is already declared by %s", path, it.n, f[0], g.PkgPath))
				}
				cs.Ghosts[f[0]] = &GhostVar{PkgPath: pkgPath, Name: f[0], Type: strings.Join(f[1:], " ")}
			}
		case "lemma", "axiom":
			cur = nil
			rest := it.rest
			i := strings.Index(rest, "(")
			j := matchParen(rest, i)
			if i < 0 || j < 0 {
				cs.Errors = append(cs.Errors, fmt.Sprintf("%s:%d: bad %s", path, it.n, it.kw))
				continue
			}
			name := strings.TrimSpace(rest[:i])
			params := parseParams(rest[i+1 : j])
			if it.kw == "lemma" {
				curLemma = &Lemma{PkgPath: pkgPath, Name: name, Params: params, File: path, Line: it.n}
				cs.Lemmas = append(cs.Lemmas, curLemma)
			} else {
				curLemma = nil
				tail := strings.TrimSpace(rest[j+1:])
				tail = strings.TrimPrefix(tail, ":")
				var trig []ast.Expr
				only := ""
				if k := strings.Index(tail, "@only"); k >= 0 {
					only = strings.TrimSpace(tail[k+len("@only"):])
					tail = tail[:k]
				}
				if k := strings.Index(tail, "@trigger"); k >= 0 {
					for _, ts := range splitTop(tail[k+len("@trigger"):]) {
						if te, err := parseSpecExpr(strings.TrimSpace(ts)); err == nil {
							trig = append(trig, te)
						} else {
							cs.Errors = append(cs.Errors, fmt.Sprintf("%s:%d: %v", path, it.n, err))
						}
					}
					tail = tail[:k]
				}
				cl := mkClause(item{it.n, "", strings.TrimSpace(tail)}, nil)
				if cl != nil {
					cs.Axioms = append(cs.Axioms, &Axiom{PkgPath: pkgPath, Name: name, Params: params, Body: cl, Triggers: trig, Only: only})
				}
			}
		case "constglobal":
			cur, curLemma = nil, nil
			f := strings.Fields(it.rest)
			k := strings.Index(it.rest, " content ")
			if len(f) >= 5 && f[1] == "len" && k > 0 {
				n, _ := strconv.Atoi(f[2])
				if cl := mkClause(item{it.n, "", strings.TrimSpace(it.rest[k+9:])}, nil); cl != nil {
					cs.ConstGlobals[pkgPath+"."+f[0]] = &ConstGlobal{PkgPath: pkgPath, Name: f[0], Len: n, Content: cl}
				}
			} else {
				cs.Errors = append(cs.Errors, fmt.Sprintf("%s:%d: bad constglobal", path, it.n))
			}
		case "filepin":
			cur, curLemma = nil, nil
			f := strings.Fields(it.rest)
			k := strings.Index(it.rest, "\"")
			if len(f) >= 3 && k > 0 {
				if txt, err := strconv.Unquote(strings.TrimSpace(it.rest[k:])); err == nil {
					cs.FilePins = append(cs.FilePins, &FilePin{Dir: filepath.Dir(path), Props: strings.Split(f[0], ","), Path: f[1], Text: txt, File: path, Line: it.n})
				} else {
					cs.Errors = append(cs.Errors, fmt.Sprintf("%s:%d: bad filepin text", path, it.n))
				}
			} else {
				cs.Errors = append(cs.Errors, fmt.Sprintf("%s:%d: bad filepin", path, it.n))
			}
		case "opaquepat":
			cs.OpaquePats = append(cs.OpaquePats, strings.Fields(it.rest)...)
		case "props":
			ps := strings.Fields(it.rest)
			if cur != nil {
				if len(cur.Requires)+len(cur.Ensures) == 0 && len(cur.Props) == 0 {
					cur.Props = ps
				}
				curProps = ps
			}
			if curLemma != nil {
				curLemma.Props = ps
			}
		case "behavior":
			if cur != nil {
				cur.Behavior = strings.TrimSpace(it.rest)
			}
		case "ensuresassumed":
			if cur != nil {
				if cl := mkClause(it, curProps); cl != nil {
					cur.AssumedEnsures = append(cur.AssumedEnsures, cl)
				}
			}
		case "ensureslocal":
			if cur != nil {
				if cl := mkClause(it, curProps); cl != nil {
					cl.Local = true
					cur.Ensures = append(cur.Ensures, cl)
				}
			}
		case "requires", "ensures":
			if curLemma != nil {
				cl := mkClause(it, curLemma.Props)
				if cl != nil {
					if it.kw == "requires" {
						curLemma.Requires = append(curLemma.Requires, cl)
					} else {
						curLemma.Ensures = append(curLemma.Ensures, cl)
					}
				}
				continue
			}
			if cur == nil {
				cs.Errors = append(cs.Errors, fmt.Sprintf("%s:%d: clause outside block", path, it.n))
				continue
			}
			cl := mkClause(it, curProps)
			if cl == nil {
				continue
			}
			if it.kw == "requires" {
				cur.Requires = append(cur.Requires, cl)
			} else {
				cur.Ensures = append(cur.Ensures, cl)
			}
		case "modifies":
			if cur == nil {
				continue
			}
			cur.HasMod = true
			for _, part := range splitTop(it.rest) {
				part = strings.TrimSpace(part)
				if part == "" || part == "nothing" {
					continue
				}
				e, err := parseSpecExpr(part)
				if err != nil {
					cs.Errors = append(cs.Errors, fmt.Sprintf("%s:%d: %v", path, it.n, err))
					continue
				}
				cur.Modifies = append(cur.Modifies, &Clause{Text: part, Expr: e, File: path, Line: it.n})
			}
		case "loop":
			if cur == nil {
				continue
			}
			f := strings.Fields(it.rest)
			if len(f) < 2 {
				cs.Errors = append(cs.Errors, fmt.Sprintf("%s:%d: bad loop clause", path, it.n))
				continue
			}
			k, _ := strconv.Atoi(f[0])
			ls := cur.Loops[k]
			if ls == nil {
				ls = &LoopSpec{}
				cur.Loops[k] = ls
			}
			rest := strings.TrimSpace(strings.TrimPrefix(strings.TrimSpace(it.rest), f[0]))
			kw, tail := firstWord(rest)
			switch kw {
			case "unroll":
				ls.Unroll, _ = strconv.Atoi(strings.TrimSpace(tail))
			case "invariant":
				cl := mkClause(item{it.n, "", strings.TrimSpace(tail)}, curProps)
				if cl != nil {
					ls.Invariants = append(ls.Invariants, cl)
				}
			case "assumed":
				// assumed at the head of every iteration, not proved: listed with its text among the assumptions of every
				// run (meant for "this counter does not wrap around within the lifetime of the process")
				cl := mkClause(item{it.n, "", strings.TrimSpace(tail)}, curProps)
				if cl != nil {
					ls.Assumed = append(ls.Assumed, cl)
				}
			case "decreases":
				cl := mkClause(item{it.n, "", strings.TrimSpace(tail)}, curProps)
				ls.Decreases = cl
			case "step":
				cl := mkClause(item{it.n, "", strings.TrimSpace(tail)}, curProps)
				if cl != nil {
					ls.Steps = append(ls.Steps, cl)
				}
			case "modifies":
				for _, part := range splitTop(tail) {
					part = strings.TrimSpace(part)
					if part == "" {
						continue
					}
					e, err := parseSpecExpr(part)
					if err == nil {
						ls.Modifies = append(ls.Modifies, &Clause{Text: part, Expr: e, File: path, Line: it.n})
					}
				}
			default:
				cs.Errors = append(cs.Errors, fmt.Sprintf("%s:%d: bad loop clause %q", path, it.n, kw))
			}
		case "assert":
			// assert <point> expr   (point = "call:<callee>:<k>.pre" etc.)
			if cur == nil {
				continue
			}
			f := strings.Fields(it.rest)
			cl := mkClause(item{it.n, "", strings.TrimSpace(strings.TrimPrefix(it.rest, f[0]))}, curProps)
			if cl != nil {
				cur.Asserts[f[0]] = append(cur.Asserts[f[0]], cl)
			}
		case "set", "choose":
			if cur != nil {
				sep := ":="
				if it.kw == "choose" {
					sep = " with "
				}
				k := strings.Index(it.rest, sep)
				if k < 0 {
					cs.Errors = append(cs.Errors, fmt.Sprintf("%s:%d: bad ghost update", path, it.n))
					continue
				}
				loc := mkClause(item{it.n, "", strings.TrimSpace(it.rest[:k])}, curProps)
				ex := mkClause(item{it.n, "", strings.TrimSpace(it.rest[k+len(sep):])}, curProps)
				if loc != nil && ex != nil {
					cur.GhostUpd = append(cur.GhostUpd, &GhostUpdate{Choose: it.kw == "choose", Loc: loc, Expr: ex})
				}
			}
		case "sqltext":
			if cur != nil {
				t := strings.TrimSpace(it.rest)
				if u, err := strconv.Unquote(t); err == nil {
					t = u
				}
				cur.SQLTexts = append(cur.SQLTexts, t)
			}
		case "lazyspecs":
			if cur != nil {
				cur.LazySpecs = true
			}
		case "sameas":
			if cur != nil {
				cur.SameAs = strings.TrimSpace(it.rest)
			}
		case "consttext":
			if cur != nil {
				t := strings.TrimSpace(it.rest)
				if u, err := strconv.Unquote(t); err == nil {
					t = u
				}
				cur.ConstTexts = append(cur.ConstTexts, t)
			}
		case "nocalls":
			if cur != nil {
				cur.NoCalls = true
			}
		case "nilcalls":
			if cur != nil {
				cur.NilCalls = true
			}
		case "threads":
			if cur != nil {
				name := strings.TrimSpace(it.rest)
				if cl := mkClause(item{it.n, "", name + " != nil ==> argH == " + name}, nil); cl != nil {
					cl.Text = "threads " + name + ": a store handle passed on is " + name + " itself (when that is not nil)"
					cur.Threads, cur.ThreadsParam = cl, name
				}
			}
		case "calledonlyby":
			if cur != nil {
				cur.OnlyCallers = append(cur.OnlyCallers, strings.Fields(it.rest)...)
			}
		case "allowcalls":
			if cur != nil {
				cur.Allow = append(cur.Allow, strings.Fields(it.rest)...)
			}
		case "definitional":
			if cur != nil {
				cur.Definitional = true
			}
		case "split":
			if cur != nil {
				k := strings.LastIndex(it.rest, " in ")
				if k < 0 {
					cs.Errors = append(cs.Errors, fmt.Sprintf("%s:%d: bad split clause", path, it.n))
					continue
				}
				rng := strings.Split(strings.TrimSpace(it.rest[k+4:]), "..")
				lo, e1 := strconv.Atoi(strings.TrimSpace(rng[0]))
				hi, e2 := 0, fmt.Errorf("x")
				if len(rng) == 2 {
					hi, e2 = strconv.Atoi(strings.TrimSpace(rng[1]))
				}
				cl := mkClause(item{it.n, "", strings.TrimSpace(it.rest[:k])}, curProps)
				if e1 != nil || e2 != nil || cl == nil || hi-lo > 64 {
					cs.Errors = append(cs.Errors, fmt.Sprintf("%s:%d: bad split clause", path, it.n))
					continue
				}
				cur.Splits = append(cur.Splits, &SplitSpec{Expr: cl, Lo: lo, Hi: hi})
			}
		case "inline":
			if cur != nil {
				cur.Inline = true
			}
		case "trusted":
			if cur != nil {
				cur.Trusted = true
			}
		case "pure":
			if cur != nil {
				cur.Pure = true
			}
		case "opaque":
			if cur != nil {
				cur.Opaque = true
			}
		case "nonnil":
			if cur != nil {
				cur.NonNil = true
			}
		case "maypanic":
			if cur != nil {
				cur.MayPanic = true
			}
		case "params":
			if cur != nil {
				for _, q := range strings.Split(it.rest, ",") {
					cur.Params = append(cur.Params, strings.TrimSpace(q))
				}
			}
		}
	}
	return nil
}

func matchParen(s string, i int) int {
	if i < 0 {
		return -1
	}
	d := 0
	for j := i; j < len(s); j++ {
		switch s[j] {
		case '(':
			d++
		case ')':
			d--
			if d == 0 {
				return j
			}
		}
	}
	return -1
}

func splitTop(s string) []string {
	var out []string
	d := 0
	last := 0
	for i := 0; i < len(s); i++ {
		switch s[i] {
		case '(', '[':
			d++
		case ')', ']':
			d--
		case ',':
			if d == 0 {
				out = append(out, s[last:i])
				last = i + 1
			}
		}
	}
	out = append(out, s[last:])
	return out
}
