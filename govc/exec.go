package main

// Symbolic execution of go/ssa function bodies with state merging, loop cutting and contracts.

import (
	"fmt"
	"go/constant"
	"go/token"
	"go/types"
	"math/big"
	"os"
	"runtime/debug"
	"sort"
	"strings"

	"golang.org/x/tools/go/ssa"
)

type Obligation struct {
	Name      string
	Kind      string
	Detail    string
	Goal      *Term
	PC        *Term
	NFacts    int
	Pos       string
	Props     []string
	Func      string
	Clause    *Clause
	Inputs    map[string]*Term // named symbolic inputs, for counterexample extraction
	Result    *SolveResult
	KnownAs   string
	ModelKeys []string
	Parts     []oblPart // per-return split of an ensures obligation: discharged iff every part is
}

type oblPart struct {
	PC, Goal *Term
	What     string
}

type Exec struct {
	P              *Program
	p              *Pool
	tm             *TypeMap
	top            *ssa.Function
	topC           *FuncContract
	facts          []*Term
	obls           []*Obligation
	regionSorts    map[string]*Sort
	epochN         int
	epochMerges    map[int]*epochMerge
	ptrIDs         map[string]*Term
	ptrByID        map[*Term]*PtrV
	condClosures   map[*Term][]condClosure
	cellN          int
	allocN         int
	depth          int
	inlineStack    []*ssa.Function
	oblCount       map[string]int
	assumptions    map[string]bool // opaque calls, havocs, trusted contracts used
	unsupported    []string
	old            *State
	modSet         []modEntry // frame of the function under check
	frameOn        bool
	heapTop0       *Term
	inputs         map[string]*Term
	dynHints       map[*Term]types.Type  // interface term -> dynamic type a requires clause demands (typeIs), for replay
	dynOf          map[string]types.Type // input key -> that dynamic type
	curProps       []string
	sentinels      map[string]*Term
	strLits        map[string]*Term
	curFn          *ssa.Function
	specDepth      int
	boxes          map[*Term]boxInfo
	shiftCache     map[string]*Term
	specDecls      map[string]*FuncDecl
	bitCache       map[int][]*Term
	bitLinked      map[int]bool
	bitTerm        map[int]*Term
	shiftAxiomDone map[string]bool
	constBacking   map[*Term]*Term
	constGlobVals  map[string]*Term
	localCellRefs  map[*Term]string
	boundOf        map[int][2]*big.Int
	boundScanned   int
	expandMemo     map[string]*Term
	symMemo        map[int]map[string]bool
	assertHits     map[string]int // site-assertion keys that matched a call site during execution
	sliceOrigin    map[*Term]*PtrV
	allocOrder     map[*Term]int
	bounded        map[*Term]bool
	wholeCopy      map[*Term]wholeCopy
	sweep          bool
	localFieldRefs []localField
	noExpand       int
	typeIDs        map[string]int
	freshErrs      []*Term
	isErrAxioms    bool
	noOblige       int // >0: evaluating spec code; do not emit obligations
}

type modEntry struct {
	region string
	ref    *Term // nil = whole region
}

func NewExec(P *Program) *Exec {
	p := NewPool()
	ex := &Exec{P: P, p: p, tm: NewTypeMap(p), regionSorts: map[string]*Sort{}, epochMerges: map[int]*epochMerge{},
		ptrIDs: map[string]*Term{}, ptrByID: map[*Term]*PtrV{}, condClosures: map[*Term][]condClosure{}, oblCount: map[string]int{},
		assumptions: map[string]bool{}, boxes: map[*Term]boxInfo{}, shiftCache: map[string]*Term{}, specDecls: map[string]*FuncDecl{}, bitCache: map[int][]*Term{}, bitLinked: map[int]bool{}, bitTerm: map[int]*Term{}, shiftAxiomDone: map[string]bool{}, constBacking: map[*Term]*Term{}, constGlobVals: map[string]*Term{}, localCellRefs: map[*Term]string{}, boundOf: map[int][2]*big.Int{}, expandMemo: map[string]*Term{}, symMemo: map[int]map[string]bool{}, assertHits: map[string]int{}, sliceOrigin: map[*Term]*PtrV{}, typeIDs: map[string]int{}, inputs: map[string]*Term{}, dynHints: map[*Term]types.Type{}, dynOf: map[string]types.Type{}, sentinels: map[string]*Term{}, strLits: map[string]*Term{},
		allocOrder: map[*Term]int{}, bounded: map[*Term]bool{}, wholeCopy: map[*Term]wholeCopy{}}
	p.DistinctFn = ex.distinct
	ex.tm.Bounds = ex.bounds
	constArrs := map[string]*Term{}
	ex.tm.ConstArr = func(s *Sort, v *Term) *Term {
		k := fmt.Sprintf("%s/%d", s, v.id)
		if a, ok := constArrs[k]; ok {
			return a
		}
		a := p.Fresh("constarr", s)
		i := p.BoundVar("i", s.Index)
		ex.facts = append(ex.facts, p.Forall([]*Term{i}, p.Eq(p.Select(a, i), v), []*Term{p.Select(a, i)}))
		constArrs[k] = a
		return a
	}
	return ex
}

// distinct: allocation constants differ from each other and from every reference that existed before them.
func (ex *Exec) distinct(a, b *Term) bool {
	ka, oka := ex.allocOrder[a]
	kb, okb := ex.allocOrder[b]
	if oka && okb {
		return ka != kb
	}
	if okb {
		a, b, oka = b, a, true
	}
	if !oka {
		return false
	}
	if b.Op == "int" {
		return b.Int.Sign() <= 0 // allocation constants are positive
	}
	return ex.bounded[b] && b.id < a.id
}

func (ex *Exec) assume(st *State, t *Term) {
	if t.IsTrue() {
		return
	}
	ex.facts = append(ex.facts, ex.p.Implies(st.pc, t))
}

func (ex *Exec) fnName(fn *ssa.Function) string {
	suffix := ""
	if fn == ex.top && ex.topC != nil && ex.topC.Behavior != "" && ex.topC.Behavior != "default" {
		suffix = "{" + ex.topC.Behavior + "}"
	}
	if fn.Pkg != nil {
		return fn.Pkg.Pkg.Name() + "." + fn.RelString(fn.Pkg.Pkg) + suffix
	}
	return fn.String() + suffix
}

func (ex *Exec) oblige(st *State, kind, detail string, goal *Term, pos string) *Obligation {
	if ex.noOblige > 0 {
		return nil
	}
	if ex.sweep {
		// sweep mode keeps only the arithmetic / bounds safety conditions; everything else is assumed to hold
		switch kind {
		case "nopanic.index", "nopanic.slice", "nopanic.div", "nopanic.makeslice", "nopanic.typeassert", "nopanic.shift", "nopanic.conv":
		default:
			ex.assume(st, goal)
			return nil
		}
	}
	if goal.IsTrue() || st.pc.IsFalse() {
		// trivially discharged; still counted so that the inventory is stable
		ex.oblCount["trivial"]++
		return nil
	}
	base := ex.fnName(ex.top) + "#" + kind
	ex.oblCount[base]++
	name := fmt.Sprintf("%s[%d]", base, ex.oblCount[base]-1)
	o := &Obligation{Name: name, Kind: kind, Detail: detail, Goal: goal, PC: st.pc, NFacts: len(ex.facts), Pos: pos,
		Func: ex.fnName(ex.top), Props: ex.curProps}
	ex.obls = append(ex.obls, o)
	return o
}

func (ex *Exec) unsupportedf(format string, args ...interface{}) {
	ex.unsupported = append(ex.unsupported, fmt.Sprintf(format, args...))
}

type execPanic struct{ msg string }

func (ex *Exec) fail(format string, args ...interface{}) {
	if os.Getenv("GOVC_TRACE") != "" {
		fmt.Fprintf(os.Stderr, "FAIL: %s\n%s\n", fmt.Sprintf(format, args...), debug.Stack())
	}
	panic(execPanic{fmt.Sprintf(format, args...)})
}

// ------------------------------------------------------------------ values

func (ex *Exec) constVal(c *ssa.Const) Val {
	p := ex.p
	t := c.Type()
	if c.Value == nil {
		// zero value / nil
		if _, ok := t.Underlying().(*types.Tuple); ok {
			ex.fail("const tuple")
		}
		return ex.tm.Zero(t)
	}
	switch c.Value.Kind() {
	case constant.Bool:
		return p.Bool(constant.BoolVal(c.Value))
	case constant.Int:
		if b, ok := t.Underlying().(*types.Basic); ok && b.Info()&types.IsFloat != 0 {
			r, _ := new(big.Rat).SetString(c.Value.ExactString())
			return p.Real(r)
		}
		v, _ := new(big.Int).SetString(c.Value.ExactString(), 10)
		return p.IntBig(v)
	case constant.Float:
		if b, ok := t.Underlying().(*types.Basic); ok && b.Info()&types.IsInteger != 0 {
			v, _ := new(big.Int).SetString(c.Value.ExactString(), 10)
			return p.IntBig(v)
		}
		r, ok := new(big.Rat).SetString(c.Value.ExactString())
		if !ok {
			ex.fail("float const %s", c.Value.ExactString())
		}
		return p.Real(r)
	case constant.String:
		return ex.strLit(constant.StringVal(c.Value))
	}
	ex.fail("unsupported constant %s", c)
	return nil
}

func (ex *Exec) strLit(s string) *Term {
	if s == "" {
		return ex.p.Const("EmptyStr", ex.tm.StrS)
	}
	if t, ok := ex.strLits[s]; ok {
		return t
	}
	name := s
	if len(name) > 24 {
		name = name[:24]
	}
	t := ex.p.Const(fmt.Sprintf("str!%d:%s", len(ex.strLits), strings.Map(func(r rune) rune {
		if r == '|' || r == '\\' || r < 32 || r > 126 {
			return '_'
		}
		return r
	}, name)), ex.tm.StrS)
	// different literals are different strings (those of different length already differ by strlen)
	var same []string
	for o := range ex.strLits {
		if len(o) == len(s) {
			same = append(same, o)
		}
	}
	sort.Strings(same)
	for _, o := range same {
		ex.facts = append(ex.facts, ex.p.Not(ex.p.Eq(t, ex.strLits[o])))
	}
	ex.strLits[s] = t
	ex.facts = append(ex.facts, ex.p.Eq(ex.strlen(t), ex.p.Int(int64(len(s)))))
	return t
}

func (ex *Exec) strlen(s *Term) *Term {
	f := ex.p.Func("strlen", []*Sort{ex.tm.StrS}, IntSort)
	return ex.p.App(f, s)
}

func (ex *Exec) val(st *State, v ssa.Value) Val {
	switch v := v.(type) {
	case *ssa.Const:
		return ex.constVal(v)
	case *ssa.Function:
		return &ClosureV{Fn: v}
	case *ssa.Global:
		if t := ex.sentinel(v); t != nil {
			// address of a sentinel variable: loads yield the constant
			return &PtrV{Kind: PGlobal, Glob: v, Root: v.Type().(*types.Pointer).Elem()}
		}
		return &PtrV{Kind: PGlobal, Glob: v, Root: v.Type().(*types.Pointer).Elem()}
	case *ssa.Builtin:
		ex.fail("builtin used as value")
	}
	r, ok := st.vals[v]
	if !ok {
		ex.fail("value %s (%s) undefined in state", v.Name(), v)
	}
	return r
}

func (ex *Exec) term(st *State, v ssa.Value) *Term {
	x := ex.val(st, v)
	switch x := x.(type) {
	case *Term:
		return x
	case *PtrV, *ClosureV:
		t, err := ex.ptrTerm(x)
		if err != nil {
			ex.fail("%v", err)
		}
		return t
	}
	ex.fail("value %s is not a term (%T)", v.Name(), x)
	return nil
}

// constGlobal: a declared constant []byte global reads as a slice over a fixed backing array.
func (ex *Exec) constGlobal(g *ssa.Global) *Term {
	if g.Pkg == nil {
		return nil
	}
	key := g.Pkg.Pkg.Path() + "." + g.Name()
	cg, ok := ex.P.CS.ConstGlobals[key]
	if !ok {
		return nil
	}
	if t, ok := ex.constGlobVals[key]; ok {
		return t
	}
	p := ex.p
	ref := p.Const("cg:"+key, IntSort)
	ex.facts = append(ex.facts, p.Gt(ref, p.Int(0)), p.Lt(ref, ex.heapTop0))
	ctx := &EvalCtx{ex: ex, st: ex.emptyState(), vars: map[string]tv{}, pkgPath: cg.PkgPath, clause: cg.Content}
	content := ctx.asTerm(ctx.eval(cg.Content.Expr))
	ex.constBacking[ref] = content
	v := p.Mk(ex.tm.SliceS, ref, p.Int(0), p.Int(int64(cg.Len)), p.Int(int64(cg.Len)))
	ex.constGlobVals[key] = v
	ex.assumptions["package-level "+key+" is initialised once, never reassigned, and holds "+cg.Content.Text] = true
	return v
}

// sentinel: package-level error variables are distinct non-nil constants.
func (ex *Exec) sentinel(g *ssa.Global) *Term {
	pt := g.Type().(*types.Pointer).Elem()
	if !types.Identical(pt, types.Universe.Lookup("error").Type()) {
		return nil
	}
	return ex.sentinelByName(g.Pkg.Pkg.Name() + "." + g.Name())
}

// sentinelByName: the package-level error variable <pkgname>.<Var> (also nameable from a contract of a package that
// does not import it: errvar("pkg.Var")).
func (ex *Exec) sentinelByName(name string) *Term {
	if t, ok := ex.sentinels[name]; ok {
		return t
	}
	t := ex.p.Const("err:"+name, IntSort)
	var others []*Term
	for _, o := range ex.sentinels {
		others = append(others, o)
	}
	ex.sentinels[name] = t
	ex.facts = append(ex.facts, ex.p.Gt(t, ex.p.Int(0)))
	if ex.heapTop0 != nil {
		ex.facts = append(ex.facts, ex.p.Lt(t, ex.heapTop0)) // created at package initialisation
	}
	for _, o := range others {
		ex.facts = append(ex.facts, ex.p.Not(ex.p.Eq(t, o)))
	}
	ex.assumptions["package-level error sentinels are constant, non-nil and pairwise distinct"] = true
	ex.sentinelWrapsNothing(t)
	return t
}

// sentinelWrapsNothing: errors.Is(sentinel, x) holds for x == sentinel only (a package-level sentinel is made by
// errors.New / fmt.Errorf without %w, assumed), stated for every x so that it also works inside defined spec functions.
func (ex *Exec) sentinelWrapsNothing(t *Term) {
	p := ex.p
	f := p.Func("isErr", []*Sort{IntSort, IntSort}, BoolSort)
	sv := p.BoundVar("s!sent", IntSort)
	ex.facts = append(ex.facts, p.Forall([]*Term{sv}, p.Eq(p.App(f, t, sv), p.Eq(sv, t)), []*Term{p.App(f, t, sv)}))
	if !ex.isErrAxioms {
		ex.isErrAxioms = true
		ev := p.BoundVar("e!is", IntSort)
		s2 := p.BoundVar("s!is", IntSort)
		// errors.Is(nil, x) is false; errors.Is(e, e) is true for a non-nil e
		ex.facts = append(ex.facts, p.Forall([]*Term{s2}, p.Not(p.App(f, p.Int(0), s2)), []*Term{p.App(f, p.Int(0), s2)}))
		ex.facts = append(ex.facts, p.Forall([]*Term{ev}, p.Implies(p.Not(p.Eq(ev, p.Int(0))), p.App(f, ev, ev)), []*Term{p.App(f, ev, ev)}))
	}
	ex.assumptions["package-level error sentinels wrap nothing (errors.Is(sentinel, x) holds for x == sentinel only)"] = true
}

// ------------------------------------------------------------------ function body execution

type edge struct {
	from, to *ssa.BasicBlock
	st       *State
}

type retInfo struct {
	st   *State
	vals []Val
}

type frame struct {
	fn    *ssa.Function
	loops []*Loop
	fc    *FuncContract
	rets  []retInfo
	dbg   map[string][]ssa.Value
	isTop bool
}

// runBody executes fn from its entry in state st (parameters already bound) and returns the merged return state.
func (ex *Exec) runBody(fr *frame, st *State) {
	all := map[*ssa.BasicBlock]bool{}
	for _, b := range fr.fn.Blocks {
		all[b] = true
	}
	st.from = nil
	outs := ex.execRegion(fr, nil, all, []edge{{nil, fr.fn.Blocks[0], st}}, false)
	if len(outs) != 0 {
		ex.fail("edges leave function body")
	}
}

// execRegion runs the blocks of a region (function body or loop body) in topological order.
// presetHeader: the loop header's phis are already set in the entry state (invariant mode).
func (ex *Exec) execRegion(fr *frame, loop *Loop, blocks map[*ssa.BasicBlock]bool, entries []edge, presetHeader bool) []edge {
	type item struct {
		b *ssa.BasicBlock
		l *Loop
	}
	var header *ssa.BasicBlock
	if loop != nil {
		header = loop.Header
	} else {
		header = fr.fn.Blocks[0]
	}
	itemOf := func(b *ssa.BasicBlock) item {
		if l := childLoopOf(fr.loops, loop, b); l != nil && !(loop != nil && l == loop) {
			return item{l.Header, l}
		}
		return item{b, nil}
	}
	// successors at item level
	succs := func(it item) []*ssa.BasicBlock {
		var out []*ssa.BasicBlock
		if it.l == nil {
			out = append(out, it.b.Succs...)
		} else {
			for b := range it.l.Blocks {
				for _, s := range b.Succs {
					if !it.l.Blocks[s] {
						out = append(out, s)
					}
				}
			}
			sort.Slice(out, func(i, j int) bool { return out[i].Index < out[j].Index })
		}
		return out
	}
	// topological order by DFS post-order
	var order []item
	visited := map[*ssa.BasicBlock]bool{}
	var dfs func(it item)
	dfs = func(it item) {
		if visited[it.b] {
			return
		}
		visited[it.b] = true
		for _, s := range succs(it) {
			if !blocks[s] || s == header {
				continue
			}
			dfs(itemOf(s))
		}
		order = append(order, it)
	}
	dfs(item{header, nil})
	for i, j := 0, len(order)-1; i < j; i, j = i+1, j-1 {
		order[i], order[j] = order[j], order[i]
	}
	pending := map[*ssa.BasicBlock][]edge{}
	for _, e := range entries {
		pending[e.to] = append(pending[e.to], e)
	}
	var outs []edge
	route := func(es []edge) {
		for _, e := range es {
			if e.st.pc.IsFalse() {
				continue
			}
			if !blocks[e.to] || e.to == header {
				outs = append(outs, e)
			} else {
				tgt := itemOf(e.to)
				pending[tgt.b] = append(pending[tgt.b], e)
			}
		}
	}
	for _, it := range order {
		in := pending[it.b]
		delete(pending, it.b)
		if len(in) == 0 {
			continue
		}
		if it.l != nil {
			route(ex.execLoop(fr, it.l, in))
			continue
		}
		var st *State
		if it.b == header && presetHeader {
			st = in[0].st
		} else {
			st = ex.enterBlock(it.b, in)
		}
		route(ex.execBlock(fr, it.b, st))
	}
	return outs
}

// enterBlock evaluates phis per incoming edge and merges.
func (ex *Exec) enterBlock(b *ssa.BasicBlock, in []edge) *State {
	var sts []*State
	for _, e := range in {
		st := e.st
		if e.from != nil {
			idx := -1
			for i, p := range b.Preds {
				if p == e.from {
					idx = i
				}
			}
			// evaluate all phis simultaneously
			var phis []*ssa.Phi
			var nv []Val
			for _, in := range b.Instrs {
				ph, ok := in.(*ssa.Phi)
				if !ok {
					break
				}
				phis = append(phis, ph)
				nv = append(nv, ex.val(st, ph.Edges[idx]))
			}
			for i, ph := range phis {
				st.vals[ph] = nv[i]
			}
		}
		sts = append(sts, st)
	}
	m, err := ex.merge(sts)
	if err != nil {
		ex.fail("merge at block %d: %v", b.Index, err)
	}
	return m
}

func (ex *Exec) execLoop(fr *frame, l *Loop, in []edge) []edge {
	var spec *LoopSpec
	if fr.fc != nil {
		spec = fr.fc.Loops[l.Ordinal]
	}
	pos := ex.P.pos(loopPos(l))
	if spec == nil && ex.sweep {
		spec = &LoopSpec{} // sweep mode: cut the loop with the trivial invariant
	}
	if spec == nil {
		ex.fail("loop %d of %s (%s) has neither invariant nor unroll", l.Ordinal, ex.fnName(fr.fn), pos)
	}
	if spec.Unroll > 0 {
		var exits []edge
		cur := in
		for k := 0; k <= spec.Unroll+1 && len(cur) > 0; k++ {
			if k == spec.Unroll+1 {
				// unwinding assertion
				for _, e := range cur {
					ex.oblige(e.st, fmt.Sprintf("loop%d.unwind", l.Ordinal), "loop exceeds unroll bound", ex.p.False(), pos)
				}
				cur = nil
				break
			}
			var outs []edge
			if len(spec.Invariants) > 0 {
				// stepping stones: the invariants are checked and then assumed at the head of every unrolled iteration
				hs := ex.enterBlock(l.Header, cur)
				lcu := &loopCtx{fr: fr, l: l}
				for i, inv := range spec.Invariants {
					g := ex.evalBool(ex.ctxFor(fr, hs, lcu), inv)
					o := ex.oblige(hs, fmt.Sprintf("loop%d.inv@%d", l.Ordinal, k), fmt.Sprintf("invariant %d at unrolled iteration %d: %s", i, k, inv.Text), g, pos)
					if o != nil {
						o.Clause = inv
					}
					ex.assume(hs, g)
				}
				outs = ex.execRegion(fr, l, l.Blocks, []edge{{nil, l.Header, hs}}, true)
			} else {
				outs = ex.execRegion(fr, l, l.Blocks, cur, false)
			}
			cur = nil
			for _, e := range outs {
				if e.to == l.Header {
					cur = append(cur, e)
				} else {
					exits = append(exits, e)
				}
			}
		}
		return exits
	}
	// invariant mode
	st := ex.enterBlock(l.Header, in)
	lc := &loopCtx{fr: fr, l: l}
	for i, inv := range spec.Invariants {
		g := ex.evalBool(ex.ctxFor(fr, st, lc), inv)
		o := ex.oblige(st, fmt.Sprintf("loop%d.init", l.Ordinal), fmt.Sprintf("invariant %d: %s", i, inv.Text), g, pos)
		if o != nil {
			o.Clause = inv
		}
	}
	// havoc
	h := st.fork()
	ex.havocLoop(fr, l, spec, h)
	for _, in := range l.Header.Instrs {
		ph, ok := in.(*ssa.Phi)
		if !ok {
			break
		}
		if _, isTerm := h.vals[ph].(*Term); isTerm || h.vals[ph] == nil {
			nm := ph.Comment
			if nm == "" {
				nm = ph.Name()
			}
			t := ex.p.Fresh("loop:"+nm, ex.tm.SortOf(ph.Type()))
			ex.facts = append(ex.facts, ex.tm.InRange(t, ph.Type(), 0))
			ex.pointerBound(h, t, ph.Type())
			h.vals[ph] = t
		} else if !ex.phiInvariant(ph, l) {
			ex.fail("loop-carried pointer phi %s cannot be havoced", ph.Name())
		}
	}
	ex.rangeIndexFacts(h, l)
	for _, inv := range spec.Invariants {
		ex.assume(h, ex.evalAssume(ex.ctxFor(fr, h, lc), inv))
	}
	for _, as := range spec.Assumed {
		ex.assume(h, ex.evalAssume(ex.ctxFor(fr, h, lc), as))
		ex.assumptions[fmt.Sprintf("assumed at the head of loop %d of %s, not proved: %s", l.Ordinal, ex.fnName(fr.fn), as.Text)] = true
	}
	h0 := h.fork() // the loop-head state of an arbitrary iteration (for two-state step clauses)
	var variant0 *Term
	if spec.Decreases != nil {
		variant0 = ex.evalTerm(ex.ctxFor(fr, h, lc), spec.Decreases)
	}
	outs := ex.execRegion(fr, l, l.Blocks, []edge{{nil, l.Header, h}}, true)
	var exits []edge
	var backs []edge
	for _, e := range outs {
		if e.to == l.Header {
			backs = append(backs, e)
		} else {
			exits = append(exits, e)
		}
	}
	if len(backs) > 0 {
		bs := ex.enterBlock(l.Header, backs)
		if ex.noOblige == 0 {
			ex.obls = append(ex.obls, &Obligation{Name: fmt.Sprintf("%s#loop%d.reach", ex.fnName(ex.top), l.Ordinal), Kind: "reach",
				Detail: "the loop back edge is reachable under the assumed invariants (vacuity guard)", Goal: ex.p.False(), PC: bs.pc,
				NFacts: len(ex.facts), Func: ex.fnName(ex.top), Props: ex.curProps, Pos: pos})
		}
		for i, inv := range spec.Invariants {
			g := ex.evalBool(ex.ctxFor(fr, bs, lc), inv)
			o := ex.oblige(bs, fmt.Sprintf("loop%d.preserve", l.Ordinal), fmt.Sprintf("invariant %d: %s", i, inv.Text), g, pos)
			if o != nil {
				o.Clause = inv
			}
		}
		for i, sc := range spec.Steps {
			cx := ex.ctxFor(fr, bs, lc)
			cx.old = h0
			g := ex.evalBool(cx, sc)
			o := ex.oblige(bs, fmt.Sprintf("loop%d.step", l.Ordinal), fmt.Sprintf("step %d: %s", i, sc.Text), g, pos)
			if o != nil {
				o.Clause = sc
			}
		}
		if spec.Decreases != nil {
			v1 := ex.evalTerm(ex.ctxFor(fr, bs, lc), spec.Decreases)
			ex.oblige(bs, fmt.Sprintf("loop%d.decreases", l.Ordinal), spec.Decreases.Text,
				ex.p.And(ex.p.Ge(variant0, ex.p.Int(0)), ex.p.Lt(v1, variant0)), pos)
		}
	}
	return exits
}

// phiInvariant: all back-edge operands of the phi equal the phi itself (loop-invariant pointer).
func (ex *Exec) phiInvariant(ph *ssa.Phi, l *Loop) bool {
	for i, p := range ph.Block().Preds {
		if l.Blocks[p] && ph.Edges[i] != ssa.Value(ph) {
			return false
		}
	}
	return true
}

func (ex *Exec) allocIsCell(a *ssa.Alloc) bool {
	el := a.Type().(*types.Pointer).Elem()
	if _, isArr := el.Underlying().(*types.Array); isArr && !isHashType(el) && !isAddrType(el) {
		return false
	}
	return !a.Heap
}

func cellKeyBase(a *ssa.Alloc) string {
	return fmt.Sprintf("%s.%s", a.Parent().Name(), a.Name())
}

// ------------------------------------------------------------------ blocks and instructions

func (ex *Exec) execBlock(fr *frame, b *ssa.BasicBlock, st *State) []edge {
	prevFn := ex.curFn
	ex.curFn = fr.fn
	defer func() { ex.curFn = prevFn }()
	for _, in := range b.Instrs {
		if st.pc.IsFalse() {
			return nil
		}
		switch in := in.(type) {
		case *ssa.Phi:
			// handled on entry
		case *ssa.If:
			c := ex.term(st, in.Cond)
			var out []edge
			if !c.IsFalse() {
				t := st
				if !c.IsTrue() {
					t = st.fork()
					t.pc = ex.p.And(st.pc, c)
				}
				t.from = b
				out = append(out, edge{b, b.Succs[0], t})
			}
			if !c.IsTrue() {
				f := st
				if !c.IsFalse() {
					f = st.fork()
					f.pc = ex.p.And(st.pc, ex.p.Not(c))
				}
				f.from = b
				out = append(out, edge{b, b.Succs[1], f})
			}
			return out
		case *ssa.Jump:
			st.from = b
			return []edge{{b, b.Succs[0], st}}
		case *ssa.Return:
			vals := make([]Val, len(in.Results))
			for i, r := range in.Results {
				vals[i] = ex.val(st, r)
			}
			fr.rets = append(fr.rets, retInfo{st, vals})
			return nil
		case *ssa.Panic:
			if fr.fc == nil || !fr.fc.MayPanic {
				ex.oblige(st, "nopanic.explicit", "explicit panic reachable", ex.p.False(), ex.P.pos(in.Pos()))
			}
			return nil
		case *ssa.RunDefers:
			ex.runDefers(fr, st)
		default:
			ex.execInstr(fr, st, in)
		}
	}
	ex.fail("block %d without terminator", b.Index)
	return nil
}

func (ex *Exec) runDefers(fr *frame, st *State) {
	for i := len(st.defers) - 1; i >= 0; i-- {
		d := st.defers[i]
		if d.guard == nil {
			ex.doCall(fr, st, d.call, d.fnv, d.args, nil, token.NoPos)
			continue
		}
		// conditional defer: run the call where its guard holds, leave the state alone elsewhere, and merge
		rest := st.defers
		yes, no := st.fork(), st.fork()
		yes.pc = ex.p.And(st.pc, d.guard)
		no.pc = ex.p.And(st.pc, ex.p.Not(d.guard))
		yes.defers, no.defers = nil, nil
		ex.doCall(fr, yes, d.call, d.fnv, d.args, nil, token.NoPos)
		m, err := ex.merge([]*State{yes, no})
		if err != nil {
			ex.fail("conditional defer: %v", err)
		}
		*st = *m
		st.defers = rest
	}
	st.defers = nil
}

func (ex *Exec) execInstr(fr *frame, st *State, in ssa.Instruction) {
	p := ex.p
	pos := ex.P.pos(in.Pos())
	switch in := in.(type) {
	case *ssa.DebugRef:
		return
	case *ssa.Alloc:
		el := in.Type().(*types.Pointer).Elem()
		if arr, ok := el.Underlying().(*types.Array); ok && !isHashType(el) && !isAddrType(el) {
			ref := ex.freshRef(st)
			// zero-initialised backing array
			name := "[]" + shortTypeName(arr.Elem())
			rs := p.ArraySort(IntSort, p.ArraySort(IntSort, ex.tm.SortOf(arr.Elem())))
			r := ex.getRegion(st, name, rs)
			st.heap[name] = p.Store(r, ref, ex.tm.Zero(el))
			st.vals[in] = &PtrV{Kind: PBacking, Ref: ref, Root: arr.Elem()}
			return
		}
		if !in.Heap {
			ex.cellN++
			key := fmt.Sprintf("%s#%d", cellKeyBase(in), ex.cellN)
			st.cells[key] = ex.tm.Zero(el)
			st.cellT[key] = el
			st.vals[in] = &PtrV{Kind: PCell, Cell: key, Root: el}
			return
		}
		ref := ex.freshRef(st)
		ptr := &PtrV{Kind: PHeap, Ref: ref, Root: el}
		// zero-initialise
		ex.frameOff(func() { ex.storeNoNilCheck(st, ptr, ex.tm.Zero(el)) })
		ex.initGhostFields(st, ref, el)
		if sT, isStruct := derefStruct(el); !isStruct || isHashType(el) || isAddrType(el) {
			if in.Comment != "" && in.Comment != "complit" && in.Comment != "varargs" {
				ex.localCellRefs[ref] = "*" + shortTypeName(el) // a captured / address-taken local variable
			}
		} else if in.Comment != "" && in.Comment != "complit" && in.Comment != "varargs" && addrStaysLocal(in, 0) {
			// a struct variable whose address is only returned: no callee can reach it before the return
			for i := 0; i < sT.NumFields(); i++ {
				ex.localFieldRefs = append(ex.localFieldRefs, localField{ref, fieldRegion(el, sT, i)})
			}
		}
		st.vals[in] = ref
	case *ssa.Store:
		addr := ex.val(st, in.Addr)
		pt := in.Addr.Type().Underlying().(*types.Pointer).Elem()
		ptr := ex.asPtr(addr, pt)
		v := ex.storable(st, in.Val)
		ex.store(st, ptr, v, pos)
	case *ssa.UnOp:
		st.vals[in] = ex.unop(st, in, pos)
	case *ssa.BinOp:
		st.vals[in] = ex.binop(st, in.Op, ex.term(st, in.X), ex.term(st, in.Y), in.X.Type(), in.Type(), pos)
	case *ssa.FieldAddr:
		base := ex.val(st, in.X)
		sT := in.X.Type().Underlying().(*types.Pointer).Elem()
		ptr := ex.asPtr(base, sT)
		str, _ := derefStruct(sT)
		np := &PtrV{Kind: ptr.Kind, Ref: ptr.Ref, Cell: ptr.Cell, Glob: ptr.Glob, Root: ptr.Root}
		np.Path = append(append([]Step(nil), ptr.Path...), Step{Kind: StepField, Field: in.Field, T: str.Field(in.Field).Type()})
		if ptr.Kind == PHeap {
			ex.nonNil(st, ptr.Ref, "field address of nil pointer", pos)
		}
		st.vals[in] = np
	case *ssa.Field:
		st.vals[in] = p.Acc(ex.term(st, in.X), in.Field)
	case *ssa.IndexAddr:
		idx := ex.term(st, in.Index)
		switch xt := in.X.Type().Underlying().(type) {
		case *types.Slice:
			s := ex.term(st, in.X)
			ex.oblige(st, "nopanic.index", "slice index in range", p.And(p.Le(p.Int(0), idx), p.Lt(idx, p.Acc(s, 2))), pos)
			st.vals[in] = &PtrV{Kind: PBacking, Ref: p.Acc(s, 0), Root: xt.Elem(),
				Path: []Step{sliceStep(p, s, idx, xt.Elem())}}
		case *types.Pointer:
			arr := xt.Elem().Underlying().(*types.Array)
			ex.oblige(st, "nopanic.index", "array index in range", p.And(p.Le(p.Int(0), idx), p.Lt(idx, p.Int(arr.Len()))), pos)
			ptr := ex.asPtr(ex.val(st, in.X), xt.Elem())
			np := &PtrV{Kind: ptr.Kind, Ref: ptr.Ref, Cell: ptr.Cell, Glob: ptr.Glob, Root: ptr.Root}
			np.Path = append(append([]Step(nil), ptr.Path...), Step{Kind: StepIndex, Index: idx, T: arr.Elem()})
			st.vals[in] = np
		default:
			ex.fail("IndexAddr on %s", in.X.Type())
		}
	case *ssa.Index:
		idx := ex.term(st, in.Index)
		x := ex.term(st, in.X)
		switch xt := in.X.Type().Underlying().(type) {
		case *types.Array:
			ex.oblige(st, "nopanic.index", "array index in range", p.And(p.Le(p.Int(0), idx), p.Lt(idx, p.Int(xt.Len()))), pos)
			st.vals[in] = p.Select(x, idx)
		case *types.Basic: // string
			ex.oblige(st, "nopanic.index", "string index in range", p.And(p.Le(p.Int(0), idx), p.Lt(idx, ex.strlen(x))), pos)
			f := p.Func("strAt", []*Sort{ex.tm.StrS, IntSort}, IntSort)
			r := p.App(f, x, idx)
			ex.facts = append(ex.facts, p.And(p.Le(p.Int(0), r), p.Le(r, p.Int(255))))
			st.vals[in] = r
		default:
			ex.fail("Index on %s", in.X.Type())
		}
	case *ssa.Convert:
		st.vals[in] = ex.convert(st, ex.term(st, in.X), in.X.Type(), in.Type(), pos)
	case *ssa.ChangeType:
		st.vals[in] = ex.changeType(st, ex.val(st, in.X), in.Type())
	case *ssa.ChangeInterface:
		st.vals[in] = ex.val(st, in.X)
	case *ssa.MakeInterface:
		st.vals[in] = ex.makeInterface(st, in)
	case *ssa.TypeAssert:
		ex.typeAssert(st, in, pos)
	case *ssa.Extract:
		t := ex.val(st, in.Tuple)
		tv, ok := t.(TupleV)
		if !ok {
			ex.fail("extract from non-tuple")
		}
		st.vals[in] = tv[in.Index]
	case *ssa.Call:
		ex.doCall(fr, st, &in.Call, nil, nil, in, in.Pos())
	case *ssa.Defer:
		if callee := in.Call.StaticCallee(); callee != nil && ex.isOpaqueFn(callee) && ex.P.ContractFor(callee) == nil {
			return // deferred call without modelled effect (mutex unlock, logging)
		}
		args := make([]Val, len(in.Call.Args))
		for i, a := range in.Call.Args {
			args[i] = ex.val(st, a)
		}
		var fnv Val
		if !in.Call.IsInvoke() {
			if _, isB := in.Call.Value.(*ssa.Builtin); !isB {
				fnv = ex.val(st, in.Call.Value)
			}
		} else {
			fnv = ex.val(st, in.Call.Value)
		}
		st.defers = append(st.defers, deferred{&in.Call, args, fnv, nil})
	case *ssa.Go:
		ex.assumptions["go statement at "+pos+" not modelled (spawned goroutine ignored)"] = true
		ex.siteAsserts(fr, st, &in.Call, in, "go", pos)
	case *ssa.MakeClosure:
		b := make([]Val, len(in.Bindings))
		for i, x := range in.Bindings {
			b[i] = ex.val(st, x)
		}
		st.vals[in] = &ClosureV{Fn: in.Fn.(*ssa.Function), Bind: b}
	case *ssa.MakeSlice:
		l := ex.term(st, in.Len)
		c := ex.term(st, in.Cap)
		ex.oblige(st, "nopanic.makeslice", "make: 0 <= len <= cap", p.And(p.Le(p.Int(0), l), p.Le(l, c)), pos)
		ref := ex.freshRef(st)
		el := in.Type().Underlying().(*types.Slice).Elem()
		name := "[]" + shortTypeName(el)
		rs := p.ArraySort(IntSort, p.ArraySort(IntSort, ex.tm.SortOf(el)))
		r := ex.getRegion(st, name, rs)
		st.heap[name] = p.Store(r, ref, ex.tm.constArr(p.ArraySort(IntSort, ex.tm.SortOf(el)), ex.tm.Zero(el)))
		st.vals[in] = p.Mk(ex.tm.SliceS, ref, p.Int(0), l, c)
	case *ssa.Slice:
		st.vals[in] = ex.sliceOp(st, in, pos)
	case *ssa.MakeMap:
		ref := ex.freshRef(st)
		st.vals[in] = ref
		// a new map holds no entry
		if mt, ok := in.Type().Underlying().(*types.Map); ok {
			_, hn, _, hs := ex.mapRegions(st, mt)
			hr := ex.getRegion(st, hn, hs)
			st.heap[hn] = p.Store(hr, ref, ex.tm.constArr(p.ArraySort(ex.tm.SortOf(mt.Key()), BoolSort), p.False()))
		}
	case *ssa.MakeChan:
		ref := ex.freshRef(st)
		st.vals[in] = ref
	case *ssa.MapUpdate:
		ex.mapUpdate(st, in, pos)
	case *ssa.Lookup:
		ex.lookup(st, in, pos)
	case *ssa.Range:
		ex.fail("range over map/string at %s not supported", pos)
	case *ssa.Next:
		ex.fail("range-next at %s not supported", pos)
	case *ssa.Send:
		ex.send(st, in, pos)
	case *ssa.Select:
		ex.selectInstr(st, in, pos)
	default:
		ex.fail("unsupported instruction %T at %s", in, pos)
	}
}

func (ex *Exec) frameOff(f func()) {
	old := ex.frameOn
	ex.frameOn = false
	defer func() { ex.frameOn = old }()
	f()
}

func (ex *Exec) storeNoNilCheck(st *State, ptr *PtrV, v *Term) {
	ex.noOblige++
	defer func() { ex.noOblige-- }()
	ex.store(st, ptr, v, "")
}

func (ex *Exec) freshRef(st *State) *Term {
	ex.allocN++
	ref := ex.p.Const(fmt.Sprintf("new!%d", ex.allocN), IntSort)
	ex.allocOrder[ref] = ex.allocN
	ex.assume(st, ex.p.And(ex.p.Gt(ref, ex.p.Int(0)), ex.p.Ge(ref, st.heapTop)))
	st.heapTop = ex.p.Add(ref, ex.p.Int(1))
	return ref
}

// storable converts an SSA value into a term that can be written to memory.
func (ex *Exec) storable(st *State, v ssa.Value) *Term {
	x := ex.val(st, v)
	switch x := x.(type) {
	case *Term:
		return x
	case *PtrV, *ClosureV:
		t, err := ex.ptrTerm(x)
		if err != nil {
			ex.fail("%v", err)
		}
		if c, ok := x.(*ClosureV); ok {
			ex.condClosures[t] = []condClosure{{ex.p.True(), c}}
		}
		return t
	}
	ex.fail("cannot store value of kind %T", x)
	return nil
}

func (ex *Exec) unop(st *State, in *ssa.UnOp, pos string) Val {
	p := ex.p
	switch in.Op {
	case token.MUL: // load
		pt := in.X.Type().Underlying().(*types.Pointer).Elem()
		if g, ok := in.X.(*ssa.Global); ok {
			if s := ex.sentinel(g); s != nil {
				return s
			}
			if cgv := ex.constGlobal(g); cgv != nil {
				return cgv
			}
		}
		ptr := ex.asPtr(ex.val(st, in.X), pt)
		v := ex.load(st, ptr, pt, pos)
		ex.facts = append(ex.facts, ex.tm.InRange(v, pt, 0))
		ex.pointerBound(st, v, pt)
		return ex.reifyPtr(v, pt)
	case token.NOT:
		return p.Not(ex.term(st, in.X))
	case token.SUB:
		x := ex.term(st, in.X)
		if x.Sort.Kind == SReal {
			return p.Neg(x)
		}
		return ex.tm.Wrap(p.Neg(x), in.Type())
	case token.XOR:
		x := ex.term(st, in.X)
		// ^x = -x-1 (signed) ; max - x (unsigned)
		if b, ok := basicInt(in.Type()); ok {
			lo, hi, _ := intRange(b)
			if lo.Sign() == 0 {
				return p.Sub(p.IntBig(hi), x)
			}
			return p.Sub(p.Neg(x), p.Int(1))
		}
	case token.ARROW:
		return ex.recv(st, in, pos)
	}
	ex.fail("unsupported unary op %s", in.Op)
	return nil
}

// reifyPtr: a loaded pointer-typed term that is a known opaque pointer id becomes that pointer again.
func (ex *Exec) reifyPtr(v *Term, t types.Type) Val {
	if pv, ok := ex.ptrByID[v]; ok {
		return pv
	}
	return v
}

// pointerBound: references read from memory are below the allocation frontier.
func (ex *Exec) pointerBound(st *State, v *Term, t types.Type) {
	switch t.Underlying().(type) {
	case *types.Pointer, *types.Map, *types.Chan:
		ex.assume(st, ex.p.Lt(v, st.heapTop))
		ex.bounded[v] = true
	case *types.Slice:
		ex.assume(st, ex.p.Lt(ex.p.Acc(v, 0), st.heapTop))
		ex.bounded[ex.p.Acc(v, 0)] = true
	}
}

func pow2(n int64) *big.Int { return new(big.Int).Lsh(big.NewInt(1), uint(n)) }

func isUnsigned(t types.Type) bool {
	b, ok := t.Underlying().(*types.Basic)
	return ok && b.Info()&types.IsUnsigned != 0
}

func (ex *Exec) binop(st *State, op token.Token, x, y *Term, xt, rt types.Type, pos string) *Term {
	p := ex.p
	if x.Sort.Kind == SReal {
		switch op {
		case token.ADD:
			return p.arith("+", x, y)
		case token.SUB:
			return p.arith("-", x, y)
		case token.MUL:
			return p.arith("*", x, y)
		case token.QUO:
			return p.RDiv(x, y)
		case token.LSS:
			return p.Lt(x, y)
		case token.LEQ:
			return p.Le(x, y)
		case token.GTR:
			return p.Gt(x, y)
		case token.GEQ:
			return p.Ge(x, y)
		case token.EQL:
			return p.Eq(x, y)
		case token.NEQ:
			return p.Not(p.Eq(x, y))
		}
	}
	switch op {
	case token.EQL:
		return ex.eqTerms(x, y, xt)
	case token.NEQ:
		return p.Not(ex.eqTerms(x, y, xt))
	case token.LAND:
		return p.And(x, y)
	case token.LOR:
		return p.Or(x, y)
	}
	if x.Sort.Kind == SUninterp && x.Sort == ex.tm.StrS {
		switch op {
		case token.ADD:
			f := p.Func("strcat", []*Sort{ex.tm.StrS, ex.tm.StrS}, ex.tm.StrS)
			r := p.App(f, x, y)
			ex.facts = append(ex.facts, p.Eq(ex.strlen(r), p.Add(ex.strlen(x), ex.strlen(y))))
			return r
		}
		ex.fail("unsupported string op %s", op)
	}
	switch op {
	case token.ADD:
		return ex.tm.Wrap(p.Add(x, y), rt)
	case token.SUB:
		return ex.tm.Wrap(p.Sub(x, y), rt)
	case token.MUL:
		return ex.tm.Wrap(p.Mul(x, y), rt)
	case token.QUO:
		ex.oblige(st, "nopanic.div", "division by zero", p.Not(p.Eq(y, p.Int(0))), pos)
		if isUnsigned(rt) {
			return p.Div(x, y)
		}
		// truncated division
		q := p.Div(x, y) // euclidean: remainder >= 0
		adj := p.Ite(p.And(p.Lt(x, p.Int(0)), p.Not(p.Eq(p.Mod(x, y), p.Int(0)))),
			p.Ite(p.Gt(y, p.Int(0)), p.Add(q, p.Int(1)), p.Sub(q, p.Int(1))), q)
		return ex.tm.Wrap(adj, rt)
	case token.REM:
		ex.oblige(st, "nopanic.div", "modulo by zero", p.Not(p.Eq(y, p.Int(0))), pos)
		if isUnsigned(rt) {
			return p.Mod(x, y)
		}
		m := p.Mod(x, y)
		absY := p.Ite(p.Lt(y, p.Int(0)), p.Neg(y), y)
		return p.Ite(p.And(p.Lt(x, p.Int(0)), p.Not(p.Eq(m, p.Int(0)))), p.Sub(m, absY), m)
	case token.LSS:
		return p.Lt(x, y)
	case token.LEQ:
		return p.Le(x, y)
	case token.GTR:
		return p.Gt(x, y)
	case token.GEQ:
		return p.Ge(x, y)
	case token.SHL:
		if y.Op == "int" && y.Int.IsInt64() && y.Int.Int64() < 512 {
			return ex.tm.Wrap(p.Mul(x, p.IntBig(pow2(y.Int.Int64()))), rt)
		}
		return ex.tm.Wrap(p.Mul(x, ex.pow2Term(y)), rt)
	case token.SHR:
		if y.Op == "int" && y.Int.IsInt64() && y.Int.Int64() < 512 {
			return p.Div(x, p.IntBig(pow2(y.Int.Int64())))
		}
		return p.Div(x, ex.pow2Term(y))
	case token.AND:
		return ex.bitAnd(x, y, rt)
	case token.OR, token.XOR, token.AND_NOT:
		if x.Op == "int" && y.Op == "int" && x.Int.Sign() >= 0 && y.Int.Sign() >= 0 {
			r := new(big.Int)
			switch op {
			case token.OR:
				r.Or(x.Int, y.Int)
			case token.XOR:
				r.Xor(x.Int, y.Int)
			case token.AND_NOT:
				r.AndNot(x.Int, y.Int)
			}
			return p.IntBig(r)
		}
		f := p.Func("bit"+op.String(), []*Sort{IntSort, IntSort}, IntSort)
		r := p.App(f, x, y)
		ex.facts = append(ex.facts, ex.tm.InRange(r, rt, 0))
		return r
	}
	ex.fail("unsupported binary op %s", op)
	return nil
}

func (ex *Exec) pow2Term(y *Term) *Term {
	p := ex.p
	f := p.Func("pow2", []*Sort{IntSort}, IntSort)
	r := p.App(f, y)
	if _, done := ex.assumptions["pow2 axioms"]; !done {
		ex.assumptions["pow2 axioms"] = true
		ex.facts = append(ex.facts, p.Eq(p.App(f, p.Int(0)), p.Int(1)))
		for k := int64(1); k <= 64; k++ {
			ex.facts = append(ex.facts, p.Eq(p.App(f, p.Int(k)), p.IntBig(pow2(k))))
		}
	}
	ex.facts = append(ex.facts, p.Gt(r, p.Int(0)))
	return r
}

// bitsOf: one Boolean per bit of an integer term of a fixed-width type (created on demand and linked to the
// integer value by a single linear equation). Index-bit tests in unrolled tree loops then become pure Boolean
// structure, which the solvers decide orders of magnitude faster than div/mod chains.
func (ex *Exec) bitsOf(x *Term, t types.Type) []*Term {
	b, ok := basicInt(t)
	if !ok {
		return nil
	}
	lo, hi, _ := intRange(b)
	w := hi.BitLen()
	signed := lo.Sign() < 0
	if signed {
		w++
	}
	if bs, ok := ex.bitCache[x.id]; ok && len(bs) == w {
		return bs
	}
	p := ex.p
	bs := make([]*Term, w)
	sum := p.Int(0)
	for h := 0; h < w; h++ {
		bs[h] = p.Const(fmt.Sprintf("bit!%d!%d", x.id, h), BoolSort)
		wgt := p.IntBig(pow2(int64(h)))
		if signed && h == w-1 {
			wgt = p.Neg(wgt)
		}
		sum = p.Add(sum, p.Ite(bs[h], wgt, p.Int(0)))
	}
	ex.facts = append(ex.facts, p.Eq(x, sum))
	ex.bitCache[x.id] = bs
	ex.bitTerm[x.id] = x
	return bs
}

// ---- intervals: bounds that follow from unguarded facts (type ranges, preconditions), used to drop provably
// unnecessary wrap-arounds so that terms stay syntactically simple.

func (ex *Exec) scanBoundFacts() {
	for ; ex.boundScanned < len(ex.facts); ex.boundScanned++ {
		for _, c := range conjuncts(ex.facts[ex.boundScanned]) {
			ex.noteBound(c)
		}
	}
}

func (ex *Exec) noteBound(c *Term) {
	set := func(t *Term, lo, hi *big.Int) {
		b := ex.boundOf[t.id]
		if lo != nil && (b[0] == nil || lo.Cmp(b[0]) > 0) {
			b[0] = lo
		}
		if hi != nil && (b[1] == nil || hi.Cmp(b[1]) < 0) {
			b[1] = hi
		}
		ex.boundOf[t.id] = b
	}
	one := big.NewInt(1)
	switch c.Op {
	case "<=":
		a, b := c.Args[0], c.Args[1]
		if a.Op == "int" {
			set(b, a.Int, nil)
		} else if b.Op == "int" {
			set(a, nil, b.Int)
		}
	case "<":
		a, b := c.Args[0], c.Args[1]
		if a.Op == "int" {
			set(b, new(big.Int).Add(a.Int, one), nil)
		} else if b.Op == "int" {
			set(a, nil, new(big.Int).Sub(b.Int, one))
		}
	case "=":
		a, b := c.Args[0], c.Args[1]
		if a.Op == "int" {
			set(b, a.Int, a.Int)
		} else if b.Op == "int" {
			set(a, b.Int, b.Int)
		}
	}
}

func (ex *Exec) bounds(t *Term) (*big.Int, *big.Int) {
	if os.Getenv("GOVC_NOBOUNDS") != "" {
		return nil, nil
	}
	ex.scanBoundFacts()
	return ex.boundsRec(t, 0)
}

func (ex *Exec) boundsRec(t *Term, depth int) (lo, hi *big.Int) {
	if t.Sort.Kind != SInt || depth > 12 {
		return nil, nil
	}
	if t.Op == "int" {
		return t.Int, t.Int
	}
	if b, ok := ex.boundOf[t.id]; ok {
		lo, hi = b[0], b[1]
	}
	tighten := func(l, h *big.Int) {
		if l != nil && (lo == nil || l.Cmp(lo) > 0) {
			lo = l
		}
		if h != nil && (hi == nil || h.Cmp(hi) < 0) {
			hi = h
		}
	}
	switch t.Op {
	case "+":
		al, ah := ex.boundsRec(t.Args[0], depth+1)
		bl, bh := ex.boundsRec(t.Args[1], depth+1)
		var l, h *big.Int
		if al != nil && bl != nil {
			l = new(big.Int).Add(al, bl)
		}
		if ah != nil && bh != nil {
			h = new(big.Int).Add(ah, bh)
		}
		tighten(l, h)
	case "-":
		if len(t.Args) == 2 {
			al, ah := ex.boundsRec(t.Args[0], depth+1)
			bl, bh := ex.boundsRec(t.Args[1], depth+1)
			var l, h *big.Int
			if al != nil && bh != nil {
				l = new(big.Int).Sub(al, bh)
			}
			if ah != nil && bl != nil {
				h = new(big.Int).Sub(ah, bl)
			}
			tighten(l, h)
		}
	case "ite":
		al, ah := ex.boundsRec(t.Args[1], depth+1)
		bl, bh := ex.boundsRec(t.Args[2], depth+1)
		var l, h *big.Int
		if al != nil && bl != nil {
			l = al
			if bl.Cmp(l) < 0 {
				l = bl
			}
		}
		if ah != nil && bh != nil {
			h = ah
			if bh.Cmp(h) > 0 {
				h = bh
			}
		}
		tighten(l, h)
	case "mod":
		if m := t.Args[1]; m.Op == "int" && m.Int.Sign() > 0 {
			tighten(big.NewInt(0), new(big.Int).Sub(m.Int, big.NewInt(1)))
		}
	}
	return lo, hi
}

// bitLemmas: valid facts relating the bit Booleans of different blasted terms (uniqueness of the binary
// representation and the carry chain of +1). They spare the solvers the arithmetic detour through the sums.
func (ex *Exec) bitLemmas() []*Term {
	p := ex.p
	type bt struct {
		x  *Term
		bs []*Term
	}
	var all []bt
	var ids []int
	for id := range ex.bitCache {
		ids = append(ids, id)
	}
	sort.Ints(ids)
	for _, id := range ids {
		all = append(all, bt{ex.bitTerm[id], ex.bitCache[id]})
	}
	var out []*Term
	for i := 0; i < len(all); i++ {
		for j := 0; j < len(all); j++ {
			if i == j || len(all[i].bs) != len(all[j].bs) {
				continue
			}
			a, b := all[i], all[j]
			if i < j {
				var eqs []*Term
				for h := range a.bs {
					eqs = append(eqs, p.Eq(a.bs[h], b.bs[h]))
				}
				out = append(out, p.Implies(p.Eq(a.x, b.x), p.And(eqs...)))
			}
			// a == b + 1
			var cs []*Term
			carry := p.True()
			for h := range a.bs {
				// a_h = b_h xor carry
				cs = append(cs, p.Eq(a.bs[h], p.Ite(carry, p.Not(b.bs[h]), b.bs[h])))
				carry = p.And(carry, b.bs[h])
			}
			out = append(out, p.Implies(p.Eq(a.x, p.Add(b.x, p.Int(1))), p.And(cs...)))
		}
	}
	return out
}

// linkBits: bitAt(x, k) == the k-th bit Boolean of x, for every k (ground facts, once per term).
func (ex *Exec) linkBits(x *Term, t types.Type) {
	if ex.bitLinked[x.id] {
		return
	}
	bs := ex.bitsOf(x, t)
	if bs == nil {
		return
	}
	ex.bitLinked[x.id] = true
	p := ex.p
	f := p.Func("bitAt", []*Sort{IntSort, IntSort}, BoolSort)
	for k, b := range bs {
		ex.facts = append(ex.facts, p.Eq(p.App(f, x, p.Int(int64(k))), b))
	}
}

func isPow2(m *big.Int) (int, bool) {
	if m.Sign() <= 0 || new(big.Int).And(m, new(big.Int).Sub(m, big.NewInt(1))).Sign() != 0 {
		return 0, false
	}
	return m.BitLen() - 1, true
}

func (ex *Exec) bitAnd(x, y *Term, rt types.Type) *Term {
	p := ex.p
	if x.Op == "int" && y.Op == "int" && x.Int.Sign() >= 0 && y.Int.Sign() >= 0 {
		return p.IntBig(new(big.Int).And(x.Int, y.Int))
	}
	lit, other := y, x
	if x.Op == "int" {
		lit, other = x, y
	}
	if lit.Op == "int" && lit.Int.Sign() >= 0 {
		m := lit.Int
		// single bit 2^k
		if k, ok := isPow2(m); ok {
			base, shift := other, 0
			if other.Op == "div" && other.Args[1].Op == "int" {
				if s, ok := isPow2(other.Args[1].Int); ok {
					base, shift = other.Args[0], s
				}
			}
			if bs := ex.bitsOf(base, rt); bs != nil && k+shift < len(bs) {
				return p.Ite(bs[k+shift], p.IntBig(m), p.Int(0))
			}
			return p.Mul(p.Mod(p.Div(other, p.IntBig(m)), p.Int(2)), p.IntBig(m))
		}
		// mask 2^k - 1
		m1 := new(big.Int).Add(m, big.NewInt(1))
		if m1.BitLen() > 0 && new(big.Int).And(m1, m).Sign() == 0 {
			return p.Mod(other, p.IntBig(m1))
		}
	}
	f := p.Func("bit&", []*Sort{IntSort, IntSort}, IntSort)
	r := p.App(f, x, y)
	ex.facts = append(ex.facts, p.And(p.Le(p.Int(0), r)), p.Implies(p.Ge(x, p.Int(0)), p.Le(r, x)), p.Implies(p.Ge(y, p.Int(0)), p.Le(r, y)))
	return r
}

func (ex *Exec) eqTerms(x, y *Term, t types.Type) *Term {
	p := ex.p
	if _, ok := t.Underlying().(*types.Slice); ok {
		// only comparison with nil is legal
		if y.Op == "mk" {
			return p.Eq(p.Acc(x, 0), p.Int(0))
		}
		return p.Eq(p.Acc(y, 0), p.Int(0))
	}
	return p.Eq(x, y)
}

func (ex *Exec) convert(st *State, x *Term, from, to types.Type, pos string) *Term {
	p := ex.p
	fb, fok := from.Underlying().(*types.Basic)
	tb, tok := to.Underlying().(*types.Basic)
	if fok && tok {
		fi, ti := fb.Info()&types.IsInteger != 0, tb.Info()&types.IsInteger != 0
		ff, tf := fb.Info()&types.IsFloat != 0, tb.Info()&types.IsFloat != 0
		switch {
		case fi && ti:
			return ex.tm.Wrap(x, to)
		case fi && tf:
			ex.assumptions["float64 modelled as exact reals (A7)"] = true
			return p.ToReal(x)
		case ff && ti:
			ex.assumptions["float64 modelled as exact reals (A7)"] = true
			// truncation toward zero
			fl := p.ToInt(x)
			tr := p.Ite(p.And(p.Lt(x, p.Real(new(big.Rat))), p.Not(p.Eq(p.ToReal(fl), x))), p.Add(fl, p.Int(1)), fl)
			return ex.tm.Wrap(tr, to)
		case ff && tf:
			return x
		case fb.Info()&types.IsString != 0 && tb.Info()&types.IsString != 0:
			return x
		case fi && tb.Info()&types.IsString != 0:
			f := p.Func("runeToStr", []*Sort{IntSort}, ex.tm.StrS)
			return p.App(f, x)
		}
	}
	// string <-> []byte
	if fok && fb.Info()&types.IsString != 0 {
		if _, ok := to.Underlying().(*types.Slice); ok {
			return ex.bytesOfString(st, x)
		}
	}
	if tok && tb.Info()&types.IsString != 0 {
		if _, ok := from.Underlying().(*types.Slice); ok {
			f := p.Func("strOfSlice", []*Sort{ex.seqSort(IntSort)}, ex.tm.StrS)
			r := p.App(f, ex.sliceSeq(st, x, types.Typ[types.Byte]))
			ex.facts = append(ex.facts, p.Eq(ex.strlen(r), p.Acc(x, 2)))
			return r
		}
	}
	if types.Identical(from.Underlying(), to.Underlying()) {
		return x
	}
	// slice to array pointer etc.
	ex.fail("unsupported conversion %s -> %s at %s", from, to, pos)
	return nil
}

func (ex *Exec) bytesOfString(st *State, s *Term) *Term {
	p := ex.p
	ref := ex.freshRef(st)
	name := "[]" + shortTypeName(types.Typ[types.Byte])
	rs := p.ArraySort(IntSort, p.ArraySort(IntSort, IntSort))
	r := ex.getRegion(st, name, rs)
	f := p.Func("strBytes", []*Sort{ex.tm.StrS}, p.ArraySort(IntSort, IntSort))
	st.heap[name] = p.Store(r, ref, p.App(f, s))
	return p.Mk(ex.tm.SliceS, ref, p.Int(0), ex.strlen(s), ex.strlen(s))
}

func (ex *Exec) makeInterface(st *State, in *ssa.MakeInterface) Val {
	x := ex.val(st, in.X)
	if pv, ok := x.(*PtrV); ok {
		t, err := ex.ptrTerm(pv)
		if err != nil {
			ex.fail("%v", err)
		}
		ex.noteDynType(t, in.X.Type())
		return t
	}
	if c, ok := x.(*ClosureV); ok {
		_ = c
		return ex.p.Fresh("iface", IntSort)
	}
	xt := x.(*Term)
	switch in.X.Type().Underlying().(type) {
	case *types.Pointer:
		ex.noteDynType(xt, in.X.Type())
		return xt
	}
	// boxed value: a deterministic box per (type, value)
	f := ex.p.Func("box:"+shortTypeName(in.X.Type()), []*Sort{xt.Sort}, IntSort)
	b := ex.p.App(f, xt)
	ex.facts = append(ex.facts, ex.p.Gt(b, ex.p.Int(0)))
	ex.boxes[b] = boxInfo{xt, in.X.Type()}
	ex.noteDynType(b, in.X.Type())
	return b
}

// initGhostFields: ghost fields declared "of" a type start at their zero value for fresh objects of that type.
func (ex *Exec) initGhostFields(st *State, ref *Term, t types.Type) {
	n, ok := types.Unalias(t).(*types.Named)
	if !ok || n.Obj().Pkg() == nil {
		return
	}
	full := n.Obj().Pkg().Path() + "." + n.Obj().Name()
	for _, gf := range ex.P.CS.GhostFields {
		if gf.OfType != full {
			continue
		}
		s := ex.specSort(gf.Sort, "")
		r := ex.getRegion(st, "gf:"+gf.Name, ex.p.ArraySort(IntSort, s))
		var z *Term
		switch s.Kind {
		case SInt:
			z = ex.p.Int(0)
		case SBool:
			z = ex.p.False()
		default:
			continue
		}
		st.heap["gf:"+gf.Name] = ex.p.Store(r, ref, z)
	}
}

type wholeCopy struct {
	src    *Term
	srcLen *Term
	width  int64
}

// changeType converts between a byte array and the abstract hash / address value of the same bytes.
func (ex *Exec) changeType(st *State, v Val, to types.Type) Val {
	t, ok := v.(*Term)
	if !ok {
		return v
	}
	p := ex.p
	want := ex.tm.SortOf(to)
	if t.Sort == want {
		return v
	}
	arrS := p.ArraySort(IntSort, IntSort)
	switch {
	case t.Sort == arrS && (want == ex.tm.HashS || want == ex.tm.AddrS):
		fname, width := "hashOf", int64(32)
		if want == ex.tm.AddrS {
			fname, width = "addrOf", 20
		}
		ex.bytesOfAbstract(p.Const("wit:"+fname, want)) // make sure the bridge axioms are present
		g := p.Func(fname, []*Sort{arrS}, want)
		if wc, ok := ex.wholeCopy[t]; ok && wc.width == width {
			return p.Ite(p.Ge(wc.srcLen, p.Int(width)), p.App(g, wc.src), p.App(g, t))
		}
		return p.App(g, t)
	case (t.Sort == ex.tm.HashS || t.Sort == ex.tm.AddrS) && want == arrS:
		return ex.bytesOfAbstract(t)
	}
	return v
}

// sliceStep: the path step to element idx of slice s (relative index plus the slice's offset when that is symbolic).
func sliceStep(p *Pool, s, idx *Term, el types.Type) Step {
	off := p.Acc(s, 1)
	if off.Op == "int" {
		return Step{Kind: StepIndex, Index: p.Add(off, idx), T: el}
	}
	return Step{Kind: StepIndex, Index: idx, Off: off, T: el}
}

type localField struct {
	ref    *Term
	region string
}

// addrStaysLocal: the address v is only used to read and write the variable itself (directly or through field /
// element addresses) or returned; it is never stored, passed to a call, captured or converted.
func addrStaysLocal(v ssa.Value, depth int) bool {
	if depth > 4 || v.Referrers() == nil {
		return false
	}
	for _, r := range *v.Referrers() {
		switch r := r.(type) {
		case *ssa.DebugRef, *ssa.Return:
		case *ssa.UnOp:
			if r.Op != token.MUL {
				return false
			}
		case *ssa.Store:
			if r.Val == v {
				return false
			}
		case *ssa.FieldAddr:
			if !addrStaysLocal(r, depth+1) {
				return false
			}
		case *ssa.IndexAddr:
			if r.Index == v || !addrStaysLocal(r, depth+1) {
				return false
			}
		default:
			return false
		}
	}
	return true
}

// rangeIndexFacts: the hidden index of a range-over-slice loop (the SSA builder's "rangeindex" phi: -1 before the
// first element, incremented by one per iteration while rangeindex+1 < len, where len was taken once before the
// loop and the program cannot assign the index) satisfies -1 <= rangeindex and rangeindex+1 <= len at the head.
func (ex *Exec) rangeIndexFacts(h *State, l *Loop) {
	p := ex.p
	for _, in := range l.Header.Instrs {
		ph, ok := in.(*ssa.Phi)
		if !ok {
			break
		}
		if ph.Comment != "rangeindex" {
			continue
		}
		pt, ok := h.vals[ph].(*Term)
		if !ok {
			continue
		}
		for _, in2 := range l.Header.Instrs {
			cmp, ok := in2.(*ssa.BinOp)
			if !ok || cmp.Op != token.LSS {
				continue
			}
			add, ok := cmp.X.(*ssa.BinOp)
			if !ok || add.Op != token.ADD || add.X != ph {
				continue
			}
			if k, ok := add.Y.(*ssa.Const); !ok || k.Int64() != 1 {
				continue
			}
			if l.Blocks[valueBlock(cmp.Y)] {
				continue // the bound must be computed before the loop
			}
			if lv, ok := h.vals[cmp.Y].(*Term); ok {
				ex.assume(h, p.And(p.Le(p.Int(-1), pt), p.Le(p.Add(pt, p.Int(1)), lv)))
				ex.assumptions["range loops: the hidden index stays within -1 .. len-1 (structure of the SSA range lowering)"] = true
			}
		}
	}
}

func valueBlock(v ssa.Value) *ssa.BasicBlock {
	if in, ok := v.(ssa.Instruction); ok {
		return in.Block()
	}
	return nil
}
