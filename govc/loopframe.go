package main

// Loop frames: what a loop body may modify, computed from the SSA of the body.

import (
	"go/token"
	"go/types"
	"sort"
	"strings"

	"golang.org/x/tools/go/ssa"
)

type regionMod struct {
	whole bool
	refs  []*Term
	fresh bool // objects allocated inside the loop are written
}

type loopMods struct {
	regions map[string]*regionMod
	cells   map[string]bool
	all     bool
}

func (m *loopMods) get(r string) *regionMod {
	x := m.regions[r]
	if x == nil {
		x = &regionMod{}
		m.regions[r] = x
	}
	return x
}

func definedOutside(v ssa.Value, l *Loop) bool {
	switch v := v.(type) {
	case *ssa.Parameter, *ssa.Const, *ssa.Global, *ssa.FreeVar, *ssa.Function:
		return true
	case ssa.Instruction:
		return !l.Blocks[v.Block()]
	}
	return false
}

func structFieldRegions(t types.Type) []string {
	if sT, ok := derefStruct(t); ok && !isHashType(t) && !isAddrType(t) {
		var out []string
		for i := 0; i < sT.NumFields(); i++ {
			out = append(out, fieldRegion(t, sT, i))
		}
		return out
	}
	return []string{"*" + shortTypeName(t)}
}

// storeTarget records what a store through addr may modify.
func (ex *Exec) storeTarget(st *State, l *Loop, depth int, addr ssa.Value, m *loopMods) {
	var firstField *ssa.FieldAddr
	v := addr
	for {
		switch a := v.(type) {
		case *ssa.FieldAddr:
			firstField = a
			v = a.X
			continue
		case *ssa.IndexAddr:
			if sl, isSlice := a.X.Type().Underlying().(*types.Slice); isSlice {
				rm := m.get(ex.sliceRegionName(sl.Elem()))
				if depth == 0 && definedOutside(a.X, l) {
					if t, ok := st.vals[a.X].(*Term); ok {
						rm.refs = append(rm.refs, ex.p.Acc(t, 0))
						return
					}
				}
				rm.whole = true
				return
			}
			firstField = nil
			v = a.X
			continue
		}
		break
	}
	// v is the root pointer
	pt, ok := v.Type().Underlying().(*types.Pointer)
	if !ok {
		m.all = true
		return
	}
	el := pt.Elem()
	if al, isAlloc := v.(*ssa.Alloc); isAlloc && ex.allocIsCell(al) {
		m.cells[cellKeyBase(al)] = true
		return
	}
	if g, isG := v.(*ssa.Global); isG {
		m.get("g:" + g.String()).whole = true
		return
	}
	var regions []string
	if arr, isArr := el.Underlying().(*types.Array); isArr && !isHashType(el) && !isAddrType(el) {
		regions = []string{ex.sliceRegionName(arr.Elem())}
	} else if firstField != nil {
		sT := firstField.X.Type().Underlying().(*types.Pointer).Elem()
		str, _ := derefStruct(sT)
		ex.hintStructRegions(sT)
		regions = []string{fieldRegion(sT, str, firstField.Field)}
	} else {
		ex.hintStructRegions(el)
		regions = structFieldRegions(el)
	}
	for _, r := range regions {
		rm := m.get(r)
		switch {
		case depth == 0 && definedOutside(v, l):
			val, ok := st.vals[v]
			if !ok {
				rm.whole = true
				continue
			}
			switch pv := val.(type) {
			case *Term:
				rm.refs = append(rm.refs, pv)
			case *PtrV:
				if pv.Kind == PHeap || pv.Kind == PBacking {
					rm.refs = append(rm.refs, pv.Ref)
				} else if pv.Kind == PCell {
					m.cells[strings.SplitN(pv.Cell, "#", 2)[0]] = true
					delete(m.regions, r)
				} else {
					rm.whole = true
				}
			default:
				rm.whole = true
			}
		default:
			if _, isAlloc := v.(*ssa.Alloc); isAlloc {
				rm.fresh = true
			} else {
				rm.whole = true
			}
		}
	}
}

func (ex *Exec) scanMods(fr *frame, l *Loop, st *State) *loopMods {
	m := &loopMods{regions: map[string]*regionMod{}, cells: map[string]bool{}}
	var scanFn func(fn *ssa.Function, blocks map[*ssa.BasicBlock]bool, depth int)
	scanFn = func(fn *ssa.Function, blocks map[*ssa.BasicBlock]bool, depth int) {
		for _, b := range fn.Blocks {
			if blocks != nil && !blocks[b] {
				continue
			}
			for _, in := range b.Instrs {
				switch in := in.(type) {
				case *ssa.Store:
					ex.storeTarget(st, l, depth, in.Addr, m)
				case *ssa.Alloc:
					el := in.Type().(*types.Pointer).Elem()
					if ex.allocIsCell(in) {
						continue
					}
					if arr, ok := el.Underlying().(*types.Array); ok && !isHashType(el) && !isAddrType(el) {
						m.get(ex.sliceRegionName(arr.Elem())).fresh = true
					} else {
						ex.hintStructRegions(el)
						for _, r := range structFieldRegions(el) {
							m.get(r).fresh = true
						}
					}
				case *ssa.MakeSlice:
					m.get(ex.sliceRegionName(in.Type().Underlying().(*types.Slice).Elem())).fresh = true
				case *ssa.Convert:
					// string -> []byte allocates
					if _, ok := in.Type().Underlying().(*types.Slice); ok {
						m.get(ex.sliceRegionName(types.Typ[types.Byte])).fresh = true
					}
				case *ssa.Slice:
					if pt, ok := in.X.Type().Underlying().(*types.Pointer); ok {
						if arr, ok := pt.Elem().Underlying().(*types.Array); ok {
							m.get(ex.sliceRegionName(arr.Elem())).fresh = true
						}
					}
				case *ssa.MapUpdate:
					mt := in.Map.Type().Underlying().(*types.Map)
					vn, hn, vs, hs := ex.mapRegions(st, mt)
					if _, ok := ex.regionSorts[vn]; !ok {
						ex.regionSorts[vn] = vs
					}
					if _, ok := ex.regionSorts[hn]; !ok {
						ex.regionSorts[hn] = hs
					}
					m.get(vn).whole = true
					m.get(hn).whole = true
				case *ssa.UnOp:
					if in.Op == token.ARROW {
						el := in.X.Type().Underlying().(*types.Chan).Elem()
						ex.hintChanRegions(el)
						m.get("chan:" + shortTypeName(el) + ".nrecv").whole = true
					}
				case *ssa.Send:
					el := in.Chan.Type().Underlying().(*types.Chan).Elem()
					ex.hintChanRegions(el)
					m.get("chan:" + shortTypeName(el) + ".sent").whole = true
					m.get("chan:" + shortTypeName(el) + ".nsent").whole = true
				case *ssa.Select:
					for _, s := range in.States {
						if c, ok := s.Chan.(*ssa.Call); ok && s.Dir == types.RecvOnly && c.Call.IsInvoke() && c.Call.Method.Name() == "Done" {
							if _, declared := ex.P.CS.Ghosts["ctxEnded"]; declared {
								m.get("ghost:ctxEnded").whole = true
							}
						}
						if s.Dir == types.SendOnly {
							el := s.Chan.Type().Underlying().(*types.Chan).Elem()
							ex.hintChanRegions(el)
							m.get("chan:" + shortTypeName(el) + ".sent").whole = true
							m.get("chan:" + shortTypeName(el) + ".nsent").whole = true
						}
						if s.Dir == types.RecvOnly {
							el := s.Chan.Type().Underlying().(*types.Chan).Elem()
							ex.hintChanRegions(el)
							m.get("chan:" + shortTypeName(el) + ".nrecv").whole = true
						}
					}
				case ssa.CallInstruction:
					cc := in.Common()
					if bi, isB := cc.Value.(*ssa.Builtin); isB {
						switch bi.Name() {
						case "copy":
							el := cc.Args[0].Type().Underlying().(*types.Slice).Elem()
							m.get(ex.sliceRegionName(el)).whole = true
						case "append":
							el := cc.Args[0].Type().Underlying().(*types.Slice).Elem()
							m.get(ex.sliceRegionName(el)).fresh = true
							// an append that may grow an aliased array in place changes existing arrays
							if ci, ok := in.(*ssa.Call); ok {
								if okOwn, _ := appendOwnerOK(ci); !okOwn {
									m.get(ex.sliceRegionName(el)).whole = true
								}
							}
						case "delete":
							m.all = true
						}
						continue
					}
					callee := cc.StaticCallee()
					if callee == nil {
						if cc.IsInvoke() {
							if c, _ := ex.ifaceContractAt(cc, fn); c != nil {
								pn := c.Params
								if len(pn) == 0 {
									pn = []string{"self"}
									for i := 0; i < cc.Signature().Params().Len(); i++ {
										pn = append(pn, cc.Signature().Params().At(i).Name())
									}
								}
								pt := []types.Type{cc.Value.Type()}
								for i := 0; i < cc.Signature().Params().Len(); i++ {
									pt = append(pt, cc.Signature().Params().At(i).Type())
								}
								if !ex.addModRegionsSig(c, m, pn, pt) {
									m.all = true
								}
								continue
							}
							if ex.isOpaqueInvoke(cc) {
								continue
							}
						}
						if mc, ok := cc.Value.(*ssa.MakeClosure); ok {
							if f, ok := mc.Fn.(*ssa.Function); ok && depth < 3 {
								scanFn(f, nil, depth+1)
								continue
							}
						}
						if sig, ok := cc.Value.Type().Underlying().(*types.Signature); ok && !cc.IsInvoke() {
							c, ok := ex.P.CS.Ifaces["functype:"+sigKey(sig)]
							if fn != nil && fn.Pkg != nil {
								if ca, okAt := ex.P.CS.Ifaces["functype:"+sigKey(sig)+"@"+fn.Pkg.Pkg.Name()+"."+fn.RelString(fn.Pkg.Pkg)]; okAt {
									c, ok = ca, true
								}
							}
							if ok {
								pn := append([]string(nil), c.Params...)
								var pt []types.Type
								for i := 0; i < sig.Params().Len(); i++ {
									pt = append(pt, sig.Params().At(i).Type())
								}
								if ex.addModRegionsSig(c, m, pn, pt) {
									continue
								}
							}
						}
						m.all = true
						continue
					}
					c, atSite := ex.P.ContractForAt(callee, fn)
					switch {
					case c != nil && (c.Pure || c.Opaque):
					case c != nil && !c.Inline:
						pn, pt := sigNames(callee, c)
						if atSite {
							for _, cp := range fn.Params {
								pn = append(pn, "caller."+cp.Name())
								pt = append(pt, cp.Type())
							}
						}
						if !ex.addModRegionsSig(c, m, pn, pt) {
							m.all = true
						}
					case ex.isOpaqueFn(callee):
					case callee.Blocks != nil && depth < 3:
						scanFn(callee, nil, depth+1)
					default:
						m.all = true
					}
				}
			}
		}
	}
	scanFn(fr.fn, l.Blocks, 0)
	return m
}

// havocLoop forgets everything the loop body may modify.
func (ex *Exec) havocLoop(fr *frame, l *Loop, spec *LoopSpec, st *State) {
	p := ex.p
	m := ex.scanMods(fr, l, st)
	if len(spec.Modifies) > 0 {
		// explicit loop frame overrides the scan for heap regions
		m.all = false
		m.regions = map[string]*regionMod{}
		ctx := ex.ctxFor(fr, st, &loopCtx{fr, l})
		for _, cl := range spec.Modifies {
			ctx.clause = cl
			for _, t := range ctx.modTargets(cl.Expr) {
				rm := m.get(t.region)
				if t.ref == nil {
					rm.whole = true
				} else {
					rm.refs = append(rm.refs, t.ref)
				}
				rm.fresh = true
			}
		}
	}
	top0 := st.heapTop
	if m.all {
		ex.havocAll(st)
		for k := range st.ghost {
			st.ghost[k] = p.Fresh("ghost:"+k, st.ghost[k].Sort)
		}
	} else {
		var names []string
		for r := range m.regions {
			names = append(names, r)
		}
		sort.Strings(names)
		for _, r := range names {
			rm := m.regions[r]
			if strings.HasPrefix(r, "ghost:") {
				g := strings.TrimPrefix(r, "ghost:")
				old := ex.ghostVar(st, g)
				st.ghost[g] = p.Fresh("ghost:"+g, old.Sort)
				continue
			}
			s, ok := ex.regionSorts[r]
			if !ok {
				// the region has not been touched so far: only allocations inside the loop can matter if nothing
				// else refers to it; when it is written at pre-existing objects we need its sort, which we get lazily.
				if !rm.whole && len(rm.refs) == 0 {
					continue // only fresh objects: nothing observable below the old frontier changes
				}
				ex.fail("loop frame: region %s is modified by the loop before it was ever read; add a 'loop N modifies' clause", r)
			}
			old := ex.getRegion(st, r, s)
			switch {
			case rm.whole || s.Kind != SArray || s.Index.Kind != SInt:
				st.heap[r] = p.Fresh("loop:"+r, s)
			case !rm.fresh:
				cur := old
				for _, ref := range rm.refs {
					cur = p.Store(cur, ref, p.Fresh("loop:"+r, s.Elem))
				}
				st.heap[r] = cur
			default:
				nr := p.Fresh("loop:"+r, s)
				x := p.BoundVar("x", IntSort)
				conds := []*Term{p.Lt(x, top0)}
				for _, ref := range rm.refs {
					conds = append(conds, p.Not(p.Eq(x, ref)))
				}
				ex.assume(st, p.Forall([]*Term{x}, p.Implies(p.And(conds...), p.Eq(p.Select(nr, x), p.Select(old, x))), []*Term{p.Select(nr, x)}))
				st.heap[r] = nr
			}
		}
		nt := p.Fresh("heapTop", IntSort)
		ex.assume(st, p.Ge(nt, st.heapTop))
		st.heapTop = nt
	}
	for c := range m.cells {
		for k, v := range st.cells {
			if k == c || strings.HasPrefix(k, c+"#") {
				st.cells[k] = p.Fresh("loop:cell:"+k, v.Sort)
				if t, ok := st.cellT[k]; ok {
					ex.facts = append(ex.facts, ex.tm.InRange(st.cells[k], t, 0))
				}
			}
		}
	}
}

func (ex *Exec) addModRegions(c *FuncContract, m *loopMods) bool {
	return ex.addModRegionsSig(c, m, nil, nil)
}

func (ex *Exec) addModRegionsSig(c *FuncContract, m *loopMods, pnames []string, ptypes []types.Type) bool {
	if c.Pure || c.Opaque {
		return true
	}
	if !c.HasMod && c.Trusted && len(c.Ensures) == 0 {
		return false
	}
	all := append([]*Clause(nil), c.Modifies...)
	for _, b := range c.Behaviors {
		all = append(all, b.Modifies...)
	}
	for _, cl := range all {
		names := ex.staticRegionsSig(c, cl, pnames, ptypes)
		if names == nil {
			return false
		}
		for _, n := range names {
			m.get(n).whole = true
		}
	}
	return true
}

// sliceRegionName is the backing-array region of element type el; its sort is recorded so that a loop frame can
// forget the region even if nothing has read it yet.
func (ex *Exec) sliceRegionName(el types.Type) string {
	name := "[]" + shortTypeName(el)
	if _, known := ex.regionSorts[name]; !known {
		ex.regionSorts[name] = ex.p.ArraySort(IntSort, ex.p.ArraySort(IntSort, ex.tm.SortOf(el)))
	}
	return name
}

func (ex *Exec) hintChanRegions(el types.Type) {
	p := ex.p
	base := "chan:" + shortTypeName(el)
	if _, ok := ex.regionSorts[base+".sent"]; !ok {
		ex.regionSorts[base+".sent"] = p.ArraySort(IntSort, p.ArraySort(IntSort, ex.tm.SortOf(el)))
	}
	if _, ok := ex.regionSorts[base+".nsent"]; !ok {
		ex.regionSorts[base+".nsent"] = p.ArraySort(IntSort, IntSort)
	}
	if _, ok := ex.regionSorts[base+".nrecv"]; !ok {
		ex.regionSorts[base+".nrecv"] = p.ArraySort(IntSort, IntSort)
	}
}
