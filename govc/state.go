package main

// Symbolic state, values, memory model.

import (
	"fmt"
	"go/types"
	"sort"
	"strings"

	"golang.org/x/tools/go/ssa"
)

type Val interface{}

type StepKind int

const (
	StepField StepKind = iota
	StepIndex
)

type Step struct {
	Kind  StepKind
	Field int
	Index *Term
	Off   *Term      // symbolic offset of the slice view the index is relative to (nil: Index is absolute)
	T     types.Type // type of the location after this step
}

type PtrKind int

const (
	PHeap    PtrKind = iota // Ref is a reference to a heap object of type Root
	PCell                   // local variable cell
	PBacking                // backing array of slices / allocated arrays; Root is the element type
	PGlobal
)

type PtrV struct {
	Kind PtrKind
	Ref  *Term
	Cell string // cell key (alloc instance)
	Glob *ssa.Global
	Root types.Type
	Path []Step
}

type ClosureV struct {
	Fn   *ssa.Function
	Bind []Val
}

type TupleV []Val

type deferred struct {
	call  *ssa.CallCommon
	args  []Val
	fnv   Val
	guard *Term // nil: unconditional; otherwise the call runs only where guard holds (defer on one branch only)
}

type State struct {
	pc      *Term
	vals    map[ssa.Value]Val
	cells   map[string]*Term
	cellT   map[string]types.Type
	heap    map[string]*Term // region name -> term
	epoch   int
	heapTop *Term
	ghost   map[string]*Term
	defers  []deferred
	from    *ssa.BasicBlock // predecessor (for phi evaluation)
}

func (s *State) fork() *State {
	n := &State{pc: s.pc, epoch: s.epoch, heapTop: s.heapTop, from: s.from}
	n.vals = make(map[ssa.Value]Val, len(s.vals))
	for k, v := range s.vals {
		n.vals[k] = v
	}
	n.cells = make(map[string]*Term, len(s.cells))
	for k, v := range s.cells {
		n.cells[k] = v
	}
	n.cellT = s.cellT // shared, append-only
	n.heap = make(map[string]*Term, len(s.heap))
	for k, v := range s.heap {
		n.heap[k] = v
	}
	n.ghost = make(map[string]*Term, len(s.ghost))
	for k, v := range s.ghost {
		n.ghost[k] = v
	}
	n.defers = append([]deferred(nil), s.defers...)
	return n
}

// ------------------------------------------------------------------ regions

type epochMerge struct {
	conds  []*Term
	epochs []int
}

func (ex *Exec) regionSort(name string) *Sort {
	s, ok := ex.regionSorts[name]
	if !ok {
		panic("unknown region " + name)
	}
	return s
}

// regionAt returns the symbolic content of region name as of havoc epoch e.
func (ex *Exec) regionAt(name string, e int) *Term {
	if m, ok := ex.epochMerges[e]; ok {
		var t *Term
		for i := len(m.epochs) - 1; i >= 0; i-- {
			r := ex.regionAt(name, m.epochs[i])
			if t == nil {
				t = r
			} else {
				t = ex.p.Ite(m.conds[i], r, t)
			}
		}
		return t
	}
	return ex.p.Const(fmt.Sprintf("%s@%d", name, e), ex.regionSort(name))
}

func (ex *Exec) getRegion(st *State, name string, s *Sort) *Term {
	if _, ok := ex.regionSorts[name]; !ok {
		ex.regionSorts[name] = s
	}
	if t, ok := st.heap[name]; ok {
		return t
	}
	t := ex.regionAt(name, st.epoch)
	st.heap[name] = t
	return t
}

func (ex *Exec) havocAll(st *State) {
	// variables of the function under execution that live in allocated cells (captured by its own closures)
	// are not reachable from a callee that does not receive them: they keep their values
	type keep struct {
		name string
		ref  *Term
		val  *Term
	}
	var kept []keep
	for ref, name := range ex.localCellRefs {
		if s, ok := ex.regionSorts[name]; ok {
			r := ex.getRegion(st, name, s)
			kept = append(kept, keep{name, ref, ex.p.Select(r, ref)})
		}
	}
	for _, lf := range ex.localFieldRefs {
		if s, ok := ex.regionSorts[lf.region]; ok {
			r := ex.getRegion(st, lf.region, s)
			kept = append(kept, keep{lf.region, lf.ref, ex.p.Select(r, lf.ref)})
		}
	}
	defer func() {
		for _, k := range kept {
			r := ex.getRegion(st, k.name, ex.regionSorts[k.name])
			st.heap[k.name] = ex.p.Store(r, k.ref, k.val)
		}
	}()
	ex.epochN++
	st.epoch = ex.epochN
	st.heap = map[string]*Term{}
	nt := ex.p.Fresh("heapTop", IntSort)
	ex.assume(st, ex.p.Ge(nt, st.heapTop))
	st.heapTop = nt
}

func fieldRegion(structT types.Type, st *types.Struct, i int) string {
	return shortTypeName(structT) + "." + st.Field(i).Name()
}

// ------------------------------------------------------------------ pointers

func derefStruct(t types.Type) (*types.Struct, bool) {
	s, ok := t.Underlying().(*types.Struct)
	return s, ok
}

func (ex *Exec) asPtr(v Val, pointee types.Type) *PtrV {
	switch v := v.(type) {
	case *PtrV:
		return v
	case *Term:
		if arr, ok := pointee.Underlying().(*types.Array); ok && !isHashType(pointee) && !isAddrType(pointee) {
			return &PtrV{Kind: PBacking, Ref: v, Root: arr.Elem()}
		}
		return &PtrV{Kind: PHeap, Ref: v, Root: pointee}
	}
	panic(fmt.Sprintf("asPtr: not a pointer value %T", v))
}

// ptrTerm converts a pointer value into a plain reference term (only possible for root pointers).
func (ex *Exec) ptrTerm(v Val) (*Term, error) {
	switch v := v.(type) {
	case *Term:
		return v, nil
	case *PtrV:
		if len(v.Path) == 0 && (v.Kind == PHeap || v.Kind == PBacking) {
			return v.Ref, nil
		}
		// interior / local pointers that escape get an opaque identity
		return ex.opaquePtrID(v), nil
	case *ClosureV:
		return ex.p.Fresh("closure", IntSort), nil
	}
	return nil, fmt.Errorf("value %T is not a pointer", v)
}

func (ex *Exec) opaquePtrID(v *PtrV) *Term {
	k := ptrKey(v)
	if t, ok := ex.ptrIDs[k]; ok {
		return t
	}
	t := ex.p.Fresh("iptr", IntSort)
	ex.facts = append(ex.facts, ex.p.Gt(t, ex.p.Int(0)))
	ex.ptrIDs[k] = t
	ex.ptrByID[t] = v
	return t
}

func ptrKey(v *PtrV) string {
	var sb strings.Builder
	fmt.Fprintf(&sb, "%d|%s|", v.Kind, v.Cell)
	if v.Ref != nil {
		fmt.Fprintf(&sb, "r%d|", v.Ref.id)
	}
	if v.Glob != nil {
		sb.WriteString(v.Glob.String())
	}
	for _, s := range v.Path {
		if s.Kind == StepField {
			fmt.Fprintf(&sb, ".%d", s.Field)
		} else {
			fmt.Fprintf(&sb, "[%d]", s.Index.id)
			if s.Off != nil {
				fmt.Fprintf(&sb, "+%d", s.Off.id)
			}
		}
	}
	return sb.String()
}

func samePtr(a, b *PtrV) bool { return ptrKey(a) == ptrKey(b) }

// getAt / setAt navigate a value term along a path.
func (ex *Exec) getAt(v *Term, path []Step) *Term {
	for _, s := range path {
		if s.Kind == StepField {
			v = ex.p.Acc(v, s.Field)
		} else if s.Off != nil {
			v = ex.elemAt(v, s.Off, s.Index)
		} else {
			v = ex.p.Select(v, s.Index)
		}
	}
	return v
}

// elemAt is element i of the view of array b that starts at offset off. With a symbolic offset the view is the
// uninterpreted shiftArr(b, off) (one global axiom), so that quantified facts about s[k] have an arithmetic-free
// trigger; with a literal zero offset, or over an array being built by stores, it is the plain select.
func (ex *Exec) elemAt(b, off, i *Term) *Term {
	p := ex.p
	if off.Op == "int" && off.Int.Sign() == 0 {
		return p.Select(b, i)
	}
	if off.Op == "int" || b.Op == "store" {
		return p.Select(b, p.Add(off, i))
	}
	return p.Select(ex.shiftView(b, off), i)
}

func (ex *Exec) shiftView(b, off *Term) *Term {
	p := ex.p
	f := p.Func("shiftArr:"+b.Sort.Elem.String(), []*Sort{b.Sort, IntSort}, b.Sort)
	akey := "shift-axiom:" + b.Sort.String()
	if !ex.shiftAxiomDone[akey] {
		ex.shiftAxiomDone[akey] = true
		bb := p.BoundVar("b", b.Sort)
		oo := p.BoundVar("o", IntSort)
		ii := p.BoundVar("i", IntSort)
		sel := p.Select(p.App(f, bb, oo), ii)
		ex.facts = append(ex.facts, p.Forall([]*Term{bb, oo, ii}, p.Eq(sel, p.Select(bb, p.Add(oo, ii))), []*Term{sel}))
	}
	return p.App(f, b, off)
}

func (s Step) absIndex(p *Pool) *Term {
	if s.Off != nil {
		return p.Add(s.Off, s.Index)
	}
	return s.Index
}

func (ex *Exec) setAt(v *Term, path []Step, nv *Term) *Term {
	if len(path) == 0 {
		return nv
	}
	s := path[0]
	if s.Kind == StepField {
		if len(path) == 1 {
			return ex.p.With(v, s.Field, nv)
		}
		inner := ex.setAt(ex.p.Acc(v, s.Field), path[1:], nv)
		return ex.p.With(v, s.Field, inner)
	}
	ai := s.absIndex(ex.p)
	if len(path) == 1 {
		return ex.p.Store(v, ai, nv)
	}
	inner := ex.setAt(ex.p.Select(v, ai), path[1:], nv)
	return ex.p.Store(v, ai, inner)
}

func (ex *Exec) nonNil(st *State, ref *Term, what string, pos string) {
	if ref.Op == "const" && strings.HasPrefix(ref.Name, "new!") {
		return
	}
	ex.oblige(st, "nopanic.nil", what, ex.p.Not(ex.p.Eq(ref, ex.p.Int(0))), pos)
}

// load reads the value at pointer p (of pointee type t).
func (ex *Exec) load(st *State, p *PtrV, t types.Type, pos string) *Term {
	switch p.Kind {
	case PCell:
		c, ok := st.cells[p.Cell]
		if !ok {
			panic("load of unknown cell " + p.Cell)
		}
		return ex.getAt(c, p.Path)
	case PGlobal:
		name := "g:" + p.Glob.String()
		r := ex.getRegion(st, name, ex.tm.SortOf(p.Root))
		return ex.getAt(r, p.Path)
	case PBacking:
		ex.nonNil(st, p.Ref, "backing array", pos)
		name := "[]" + shortTypeName(p.Root)
		r := ex.getRegion(st, name, ex.p.ArraySort(IntSort, ex.p.ArraySort(IntSort, ex.tm.SortOf(p.Root))))
		arr := ex.p.Select(r, p.Ref)
		if c, ok := ex.constBacking[p.Ref]; ok {
			arr = c
		}
		return ex.getAt(arr, p.Path)
	case PHeap:
		ex.nonNil(st, p.Ref, "pointer dereference", pos)
		if sT, ok := derefStruct(p.Root); ok && !isHashType(p.Root) && !isAddrType(p.Root) {
			if len(p.Path) == 0 {
				fs := make([]*Term, sT.NumFields())
				for i := range fs {
					r := ex.getRegion(st, fieldRegion(p.Root, sT, i), ex.p.ArraySort(IntSort, ex.tm.SortOf(sT.Field(i).Type())))
					fs[i] = ex.p.Select(r, p.Ref)
				}
				return ex.p.Mk(ex.tm.SortOf(p.Root), fs...)
			}
			f := p.Path[0]
			if f.Kind != StepField {
				panic("heap struct path must start with a field")
			}
			r := ex.getRegion(st, fieldRegion(p.Root, sT, f.Field), ex.p.ArraySort(IntSort, ex.tm.SortOf(sT.Field(f.Field).Type())))
			return ex.getAt(ex.p.Select(r, p.Ref), p.Path[1:])
		}
		name := "*" + shortTypeName(p.Root)
		r := ex.getRegion(st, name, ex.p.ArraySort(IntSort, ex.tm.SortOf(p.Root)))
		return ex.getAt(ex.p.Select(r, p.Ref), p.Path)
	}
	panic("load: bad pointer")
}

func (ex *Exec) store(st *State, p *PtrV, v *Term, pos string) {
	switch p.Kind {
	case PCell:
		st.cells[p.Cell] = ex.setAt(st.cells[p.Cell], p.Path, v)
	case PGlobal:
		name := "g:" + p.Glob.String()
		r := ex.getRegion(st, name, ex.tm.SortOf(p.Root))
		st.heap[name] = ex.setAt(r, p.Path, v)
		ex.frameCheck(st, name, nil, pos)
	case PBacking:
		ex.nonNil(st, p.Ref, "backing array", pos)
		name := "[]" + shortTypeName(p.Root)
		r := ex.getRegion(st, name, ex.p.ArraySort(IntSort, ex.p.ArraySort(IntSort, ex.tm.SortOf(p.Root))))
		arr := ex.p.Select(r, p.Ref)
		st.heap[name] = ex.p.Store(r, p.Ref, ex.setAt(arr, p.Path, v))
		ex.frameCheck(st, name, p.Ref, pos)
	case PHeap:
		ex.nonNil(st, p.Ref, "pointer dereference", pos)
		if sT, ok := derefStruct(p.Root); ok && !isHashType(p.Root) && !isAddrType(p.Root) {
			if len(p.Path) == 0 {
				for i := 0; i < sT.NumFields(); i++ {
					name := fieldRegion(p.Root, sT, i)
					r := ex.getRegion(st, name, ex.p.ArraySort(IntSort, ex.tm.SortOf(sT.Field(i).Type())))
					st.heap[name] = ex.p.Store(r, p.Ref, ex.p.Acc(v, i))
					ex.frameCheck(st, name, p.Ref, pos)
				}
				return
			}
			f := p.Path[0]
			name := fieldRegion(p.Root, sT, f.Field)
			r := ex.getRegion(st, name, ex.p.ArraySort(IntSort, ex.tm.SortOf(sT.Field(f.Field).Type())))
			old := ex.p.Select(r, p.Ref)
			st.heap[name] = ex.p.Store(r, p.Ref, ex.setAt(old, p.Path[1:], v))
			ex.frameCheck(st, name, p.Ref, pos)
			return
		}
		name := "*" + shortTypeName(p.Root)
		r := ex.getRegion(st, name, ex.p.ArraySort(IntSort, ex.tm.SortOf(p.Root)))
		old := ex.p.Select(r, p.Ref)
		st.heap[name] = ex.p.Store(r, p.Ref, ex.setAt(old, p.Path, v))
		ex.frameCheck(st, name, p.Ref, pos)
	}
}

// ------------------------------------------------------------------ merging

func (ex *Exec) mergeVals(c *Term, a, b Val) (Val, error) {
	if a == nil {
		return b, nil
	}
	if b == nil {
		return a, nil
	}
	switch x := a.(type) {
	case *Term:
		switch y := b.(type) {
		case *Term:
			if x == y {
				return x, nil
			}
			if x.Sort.String() != y.Sort.String() {
				return nil, fmt.Errorf("merge of different sorts %s / %s", x.Sort, y.Sort)
			}
			return ex.p.Ite(c, x, y), nil
		case *PtrV, *ClosureV:
			yt, err := ex.ptrTerm(y)
			if err != nil {
				return nil, err
			}
			return ex.p.Ite(c, x, yt), nil
		}
	case *PtrV:
		if y, ok := b.(*PtrV); ok && samePtr(x, y) {
			return x, nil
		}
		xt, err := ex.ptrTerm(x)
		if err != nil {
			return nil, err
		}
		return ex.mergeVals(c, xt, b)
	case *ClosureV:
		if y, ok := b.(*ClosureV); ok && y.Fn == x.Fn {
			if len(x.Bind) == len(y.Bind) {
				same := true
				nb := make([]Val, len(x.Bind))
				for i := range x.Bind {
					m, err := ex.mergeVals(c, x.Bind[i], y.Bind[i])
					if err != nil {
						same = false
						break
					}
					nb[i] = m
				}
				if same {
					return &ClosureV{Fn: x.Fn, Bind: nb}, nil
				}
			}
		}
		// different closures: keep a conditional closure table
		t := ex.p.Fresh("closure", IntSort)
		ex.condClosures[t] = append(ex.condClosures[t], condClosure{c, a}, condClosure{ex.p.Not(c), b})
		return t, nil
	case TupleV:
		y, ok := b.(TupleV)
		if !ok || len(x) != len(y) {
			return nil, fmt.Errorf("merge of mismatched tuples")
		}
		out := make(TupleV, len(x))
		for i := range x {
			m, err := ex.mergeVals(c, x[i], y[i])
			if err != nil {
				return nil, err
			}
			out[i] = m
		}
		return out, nil
	}
	if tb, ok := b.(*Term); ok {
		if _, ok2 := a.(*ClosureV); ok2 {
			_ = tb
		}
	}
	return nil, fmt.Errorf("cannot merge %T with %T", a, b)
}

type condClosure struct {
	c *Term
	v Val
}

// merge combines states whose path conditions are pairwise exclusive.
func (ex *Exec) merge(states []*State) (*State, error) {
	if len(states) == 1 {
		return states[0], nil
	}
	res := states[0].fork()
	for _, s := range states[1:] {
		c := s.pc // values of s are selected when s.pc holds
		// registers
		for k, v := range s.vals {
			if rv, ok := res.vals[k]; ok {
				m, err := ex.mergeVals(c, v, rv)
				if err != nil {
					// value not mergeable: drop (using it later is an error)
					delete(res.vals, k)
					continue
				}
				res.vals[k] = m
			} else {
				res.vals[k] = v
			}
		}
		for k, v := range s.cells {
			if rv, ok := res.cells[k]; ok {
				if rv != v {
					res.cells[k] = ex.p.Ite(c, v, rv)
				}
			} else {
				res.cells[k] = v
			}
		}
		// heap
		if s.epoch != res.epoch {
			// materialise all regions known on either side at their own epochs
			names := map[string]bool{}
			for k := range s.heap {
				names[k] = true
			}
			for k := range res.heap {
				names[k] = true
			}
			for k := range names {
				a, ok1 := s.heap[k]
				if !ok1 {
					a = ex.regionAt(k, s.epoch)
				}
				b, ok2 := res.heap[k]
				if !ok2 {
					b = ex.regionAt(k, res.epoch)
				}
				res.heap[k] = ex.p.Ite(c, a, b)
			}
			ex.epochN++
			ex.epochMerges[ex.epochN] = &epochMerge{conds: []*Term{c, ex.p.True()}, epochs: []int{s.epoch, res.epoch}}
			res.epoch = ex.epochN
		} else {
			for k, v := range s.heap {
				if rv, ok := res.heap[k]; ok {
					if rv != v {
						res.heap[k] = ex.p.Ite(c, v, rv)
					}
				} else {
					res.heap[k] = ex.p.Ite(c, v, ex.regionAt(k, res.epoch))
				}
			}
			for k, rv := range res.heap {
				if _, ok := s.heap[k]; !ok {
					res.heap[k] = ex.p.Ite(c, ex.regionAt(k, s.epoch), rv)
				}
			}
		}
		for k, v := range s.ghost {
			if rv, ok := res.ghost[k]; ok {
				if rv != v {
					res.ghost[k] = ex.p.Ite(c, v, rv)
				}
			} else {
				// untouched on the other side: still at its initial value
				res.ghost[k] = ex.p.Ite(c, v, ex.p.Const("ghost:"+k+"@0", v.Sort))
			}
		}
		for k, rv := range res.ghost {
			if _, ok := s.ghost[k]; !ok {
				res.ghost[k] = ex.p.Ite(c, ex.p.Const("ghost:"+k+"@0", rv.Sort), rv)
			}
		}
		if s.heapTop != res.heapTop {
			res.heapTop = ex.p.Ite(c, s.heapTop, res.heapTop)
		}
		if !sameDefers(s.defers, res.defers) {
			// a defer executed on one branch only: keep the common prefix, guard the rest by the branch it came from
			n := 0
			for n < len(s.defers) && n < len(res.defers) && s.defers[n].call == res.defers[n].call && s.defers[n].guard == res.defers[n].guard {
				n++
			}
			merged := append([]deferred(nil), res.defers[:n]...)
			for _, d := range res.defers[n:] {
				g := res.pc
				if d.guard != nil {
					g = ex.p.And(g, d.guard)
				}
				merged = append(merged, deferred{d.call, d.args, d.fnv, g})
			}
			for _, d := range s.defers[n:] {
				g := s.pc
				if d.guard != nil {
					g = ex.p.And(g, d.guard)
				}
				merged = append(merged, deferred{d.call, d.args, d.fnv, g})
			}
			res.defers = merged
		}
		res.pc = ex.p.Or(res.pc, s.pc)
	}
	return res, nil
}

func sameDefers(a, b []deferred) bool {
	if len(a) != len(b) {
		return false
	}
	for i := range a {
		if a[i].call != b[i].call || a[i].guard != b[i].guard {
			return false
		}
	}
	return true
}

func sortedKeys(m map[string]*Term) []string {
	var ks []string
	for k := range m {
		ks = append(ks, k)
	}
	sort.Strings(ks)
	return ks
}

// rootOrStepType: the Go type of the location a pointer denotes.
func (p *PtrV) rootOrStepType() types.Type {
	if len(p.Path) > 0 {
		return p.Path[len(p.Path)-1].T
	}
	return p.Root
}
