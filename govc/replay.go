package main

// Counterexample replay against the real code (go test -overlay). Filled in per function kind.

func tryReplay(P *Program, rep *FuncReport, o *Obligation, r *SolveResult, out map[string]interface{}, repo string) bool {
	return false
}
