package main

// Counterexample replay against the real code.
//
// A `sat` answer gives values for the function's inputs. They are turned into Go literals, the real
// function is called from an in-package test injected with `go test -overlay` (nothing is written
// to the repository), its outputs are read back, and the failed obligation is re-asked with the
// inputs pinned to the model and the result pinned to what the real code returned. If that query is
// still satisfiable the real code violates the clause on that input: a confirmed violation.

import (
	"bytes"
	"context"
	"encoding/json"
	"flag"
	"fmt"
	"go/types"
	"math/big"
	"os"
	"os/exec"
	"path/filepath"
	"sort"
	"strings"
	"time"

	"golang.org/x/tools/go/ssa"
)

// ---- s-expressions (solver values)

type sx struct {
	atom string
	list []*sx
}

func parseSx(s string) *sx {
	pos := 0
	var rec func() *sx
	skip := func() {
		for pos < len(s) && (s[pos] == ' ' || s[pos] == '\n' || s[pos] == '\t') {
			pos++
		}
	}
	rec = func() *sx {
		skip()
		if pos >= len(s) {
			return nil
		}
		if s[pos] == '(' {
			pos++
			n := &sx{}
			for {
				skip()
				if pos >= len(s) {
					return n
				}
				if s[pos] == ')' {
					pos++
					return n
				}
				c := rec()
				if c == nil {
					return n
				}
				n.list = append(n.list, c)
			}
		}
		if s[pos] == '|' {
			j := strings.IndexByte(s[pos+1:], '|')
			a := s[pos : pos+j+2]
			pos += j + 2
			return &sx{atom: a}
		}
		st := pos
		for pos < len(s) && s[pos] != ' ' && s[pos] != '(' && s[pos] != ')' && s[pos] != '\n' {
			pos++
		}
		return &sx{atom: s[st:pos]}
	}
	return rec()
}

func (x *sx) String() string {
	if x == nil {
		return ""
	}
	if x.list == nil && x.atom != "" {
		return x.atom
	}
	var parts []string
	for _, c := range x.list {
		parts = append(parts, c.String())
	}
	return "(" + strings.Join(parts, " ") + ")"
}

func (x *sx) isAtom() bool { return x != nil && x.list == nil && x.atom != "" }

func sxInt(x *sx) (*big.Int, bool) {
	if x == nil {
		return nil, false
	}
	if x.isAtom() {
		v, ok := new(big.Int).SetString(x.atom, 10)
		return v, ok
	}
	if len(x.list) == 2 && x.list[0].atom == "-" {
		v, ok := sxInt(x.list[1])
		if !ok {
			return nil, false
		}
		return new(big.Int).Neg(v), true
	}
	return nil, false
}

// ---- building Go literals and pinning terms from model values

type replayCtx struct {
	ex        *Exec
	pkg       *types.Package
	imports   map[string]string // path -> name
	pins      []*Term
	notes     []string
	fail      string
	needBig   bool
	needPtr   bool
	absVals   map[string]int
	absConsts []*Term
	model     map[string]*sx
	depth     int
}

// objLit: &T{...} from the model's values of the object's fields (keys key.Field).
func (rc *replayCtx) objLit(key string, t types.Type) (string, bool) {
	sT, ok := derefStruct(t)
	if !ok {
		return "", false
	}
	if rc.depth > 3 {
		return "", false
	}
	rc.depth++
	defer func() { rc.depth-- }()
	var parts []string
	for i := 0; i < sT.NumFields(); i++ {
		f := sT.Field(i)
		k := key + "." + f.Name()
		mv, ok := rc.model[k]
		if !ok {
			continue // never read: its zero value is as good as any
		}
		s, tm, ok := rc.lit(f.Type(), mv, k)
		if !ok {
			rc.notes = append(rc.notes, "field "+k+" could not be reconstructed; left at its zero value and not pinned")
			continue
		}
		if f.Exported() || f.Pkg() == rc.pkg {
			parts = append(parts, f.Name()+": "+s)
		}
		if tm != nil && rc.ex.inputs[k] != nil {
			rc.pins = append(rc.pins, rc.ex.p.Eq(rc.ex.inputs[k], tm))
		}
	}
	return "&" + rc.typeStr(t) + "{" + strings.Join(parts, ", ") + "}", true
}

type unusedReplay struct {
}

func (rc *replayCtx) qual(p *types.Package) string {
	if p == rc.pkg {
		return ""
	}
	return rc.importName(p.Path(), p.Name())
}

func (rc *replayCtx) importName(path, name string) string {
	if n, ok := rc.imports[path]; ok {
		return n
	}
	used := map[string]bool{}
	for _, n := range rc.imports {
		used[n] = true
	}
	n := name
	for i := 2; used[n]; i++ {
		n = fmt.Sprintf("%s%d", name, i)
	}
	rc.imports[path] = n
	return n
}

func (rc *replayCtx) typeStr(t types.Type) string {
	return types.TypeString(t, rc.qual)
}

var ifaceStubs = map[string][2]string{
	"github.com/agglayer/aggkit/common.Logger":          {"github.com/agglayer/aggkit/log", "log.GetDefaultLogger()"},
	"github.com/agglayer/aggkit/aggsender/types.Logger": {"github.com/agglayer/aggkit/log", "log.GetDefaultLogger()"},
}

// lit renders the Go literal for a model value of Go type t and returns the matching concrete term.
func (rc *replayCtx) lit(t types.Type, v *sx, key string) (string, *Term, bool) {
	p := rc.ex.p
	t0 := t
	t = types.Unalias(t)
	if isHashType(t) || isAddrType(t) {
		// abstract sorts: any injective assignment of concrete values to the model's elements is faithful
		key := v.String()
		zeroName := "const:ZeroHash"
		if isAddrType(t) {
			zeroName = "const:ZeroAddr"
		}
		if z, ok := rc.model[zeroName]; ok && z.String() == key {
			return rc.typeStr(t0) + "{}", rc.ex.tm.Zero(t), true
		}
		idx, ok := rc.absVals[key]
		if !ok {
			idx = len(rc.absVals) + 1
			rc.absVals[key] = idx
			c := rc.ex.p.Const(fmt.Sprintf("replay:abs!%d", idx), rc.ex.tm.SortOf(t))
			rc.absConsts = append(rc.absConsts, c)
			rc.pins = append(rc.pins, rc.ex.p.Not(rc.ex.p.Eq(c, rc.ex.tm.Zero(t))))
		}
		c := rc.ex.p.Const(fmt.Sprintf("replay:abs!%d", idx), rc.ex.tm.SortOf(t))
		if isHashType(t) {
			return fmt.Sprintf("%s{31: %d}", rc.typeStr(t0), idx), c, true
		}
		return fmt.Sprintf("%s{19: %d}", rc.typeStr(t0), idx), c, true
	}
	switch u := t.Underlying().(type) {
	case *types.Basic:
		switch {
		case u.Info()&types.IsBoolean != 0:
			if v.isAtom() && (v.atom == "true" || v.atom == "false") {
				return v.atom, p.Bool(v.atom == "true"), true
			}
		case u.Info()&types.IsInteger != 0:
			if n, ok := sxInt(v); ok {
				if b, isInt := basicInt(t); isInt {
					// a value outside the machine range (a field no fact constrains in the relaxed query) is reduced into
					// it; the pinned re-ask below decides whether the reduced input still violates the clause
					lo, hi, _ := intRange(b)
					if n.Cmp(lo) < 0 || n.Cmp(hi) > 0 {
						span := new(big.Int).Add(new(big.Int).Sub(hi, lo), big.NewInt(1))
						n = new(big.Int).Mod(new(big.Int).Sub(n, lo), span)
						n.Add(n, lo)
					}
				}
				return fmt.Sprintf("%s(%s)", rc.typeStr(t0), n.String()), p.IntBig(n), true
			}
		case u.Info()&types.IsString != 0:
			return `""`, rc.ex.tm.Zero(t), true
		}
	case *types.Struct:
		if len(v.list) != u.NumFields()+1 {
			return "", nil, false
		}
		var parts []string
		var terms []*Term
		for i := 0; i < u.NumFields(); i++ {
			s, tm, ok := rc.lit(u.Field(i).Type(), v.list[i+1], "")
			if !ok || tm == nil {
				return "", nil, false
			}
			if u.Field(i).Exported() || u.Field(i).Pkg() == rc.pkg {
				parts = append(parts, u.Field(i).Name()+": "+s)
			}
			terms = append(terms, tm)
		}
		return rc.typeStr(t0) + "{" + strings.Join(parts, ", ") + "}", p.Mk(rc.ex.tm.SortOf(t), terms...), true
	case *types.Pointer:
		n, ok := sxInt(v)
		if !ok {
			return "", nil, false
		}
		if n.Sign() == 0 {
			return "nil", p.Int(0), true
		}
		if key == "" {
			return "", nil, false
		}
		if isNamed(u.Elem(), "math/big", "Int") {
			if mv, ok := rc.model[key+"#bigval"]; ok {
				if bv, ok := sxInt(mv); ok {
					rc.pins = append(rc.pins, rc.ex.p.Eq(rc.ex.inputs[key+"#bigval"], rc.ex.p.IntBig(bv)))
					rc.importName("math/big", "big")
					rc.needBig = true
					return fmt.Sprintf("govcBig(%q)", bv.String()), p.IntBig(n), true
				}
			}
			return "", nil, false
		}
		if isHashType(u.Elem()) || isAddrType(u.Elem()) {
			if mv, ok := rc.model[key+"#deref"]; ok {
				s, tm, ok := rc.lit(u.Elem(), mv, "")
				if ok {
					rc.pins = append(rc.pins, rc.ex.p.Eq(rc.ex.inputs[key+"#deref"], tm))
					rc.needPtr = true
					return "govcPtr(" + s + ")", p.IntBig(n), true
				}
			}
			return "&" + rc.typeStr(u.Elem()) + "{}", p.IntBig(n), true
		}
		if s, ok := rc.objLit(key, u.Elem()); ok {
			return s, p.IntBig(n), true
		}
		return "", nil, false
	case *types.Interface:
		n, ok := sxInt(v)
		if !ok {
			return "", nil, false
		}
		if n.Sign() == 0 {
			return "nil", p.Int(0), true
		}
		if dt, ok := rc.ex.dynOf[key]; ok && key != "" {
			return rc.lit(dt, v, key)
		}
		if nt, ok := t.(*types.Named); ok && nt.Obj().Pkg() != nil {
			if st, ok := ifaceStubs[nt.Obj().Pkg().Path()+"."+nt.Obj().Name()]; ok {
				nm := rc.importName(st[0], filepath.Base(st[0]))
				return strings.Replace(st[1], filepath.Base(st[0])+".", nm+".", 1), p.IntBig(n), true
			}
		}
		return "", nil, false
	case *types.Slice:
		// (mk!Slice ref off len cap): only empty / nil slices are reconstructed
		if len(v.list) == 5 {
			ref, _ := sxInt(v.list[1])
			ln, _ := sxInt(v.list[3])
			if ref != nil && ref.Sign() == 0 {
				return "nil", rc.ex.tm.Zero(t), true
			}
			if ln != nil && ln.Sign() == 0 {
				return rc.typeStr(t0) + "{}", nil, true
			}
		}
		return "", nil, false
	}
	return "", nil, false
}

// leafs enumerates comparable leaves (ints, bools) of a value for output pinning.
type leaf struct {
	path string // Go expression suffix relative to the root variable
	term *Term
	t    types.Type
	cond string // Go guard (non-nil checks)
}

func (rc *replayCtx) leaves(rootExpr string, v Val, t types.Type, st *State, depth int, guard string, out *[]leaf) {
	ex := rc.ex
	p := ex.p
	t = types.Unalias(t)
	if isHashType(t) || isAddrType(t) {
		return
	}
	switch u := t.Underlying().(type) {
	case *types.Basic:
		if u.Info()&(types.IsInteger|types.IsBoolean) != 0 {
			if tm, ok := v.(*Term); ok {
				*out = append(*out, leaf{rootExpr, tm, t, guard})
			}
		}
	case *types.Struct:
		tm, ok := v.(*Term)
		if !ok {
			return
		}
		for i := 0; i < u.NumFields(); i++ {
			f := u.Field(i)
			if !f.Exported() && f.Pkg() != rc.pkg {
				continue
			}
			rc.leaves(rootExpr+"."+f.Name(), p.Acc(tm, i), f.Type(), st, depth, guard, out)
		}
	case *types.Slice:
		if tm, ok := v.(*Term); ok {
			*out = append(*out, leaf{"len(" + rootExpr + ")", p.Acc(tm, 2), types.Typ[types.Int], guard})
		}
	case *types.Interface:
		if tm, ok := v.(*Term); ok {
			*out = append(*out, leaf{"(" + rootExpr + " != nil)", p.Not(p.Eq(tm, p.Int(0))), types.Typ[types.Bool], guard})
		}
	case *types.Pointer:
		tm, err := ex.ptrTerm(v)
		if err != nil {
			return
		}
		*out = append(*out, leaf{"(" + rootExpr + " != nil)", p.Not(p.Eq(tm, p.Int(0))), types.Typ[types.Bool], guard})
		if isNamed(u.Elem(), "math/big", "Int") {
			if s, known := ex.regionSorts["gf:bigval"]; known {
				ex.noOblige++
				r := ex.getRegion(st, "gf:bigval", s)
				ex.noOblige--
				g := rootExpr + " != nil"
				if guard != "" {
					g = guard + " && " + g
				}
				*out = append(*out, leaf{rootExpr + ".String()", p.Select(r, tm), types.Typ[types.Int], g})
			}
			return
		}
		if depth >= 2 {
			return
		}
		sT, ok := derefStruct(u.Elem())
		if !ok || isHashType(u.Elem()) || isAddrType(u.Elem()) {
			return
		}
		g := rootExpr + " != nil"
		if guard != "" {
			g = guard + " && " + g
		}
		for i := 0; i < sT.NumFields(); i++ {
			f := sT.Field(i)
			if !f.Exported() && f.Pkg() != rc.pkg {
				continue
			}
			name := fieldRegion(u.Elem(), sT, i)
			s, known := ex.regionSorts[name]
			if !known {
				continue
			}
			ex.noOblige++
			r := ex.getRegion(st, name, s)
			ex.noOblige--
			rc.leaves(rootExpr+"."+f.Name(), p.Select(r, tm), f.Type(), st, depth+1, g, out)
		}
	}
}

func tryReplay(P *Program, rep *FuncReport, o *Obligation, r *SolveResult, out map[string]interface{}, repo string) bool {
	ex := rep.ex
	fn := rep.fn
	if fn == nil || fn.Pkg == nil || rep.final == nil {
		out["replay"] = "no replay driver for this kind of obligation"
		return false
	}
	if fn.Parent() != nil {
		out["replay"] = "closures are not replayed"
		return false
	}
	rc := &replayCtx{ex: ex, pkg: fn.Pkg.Pkg, imports: map[string]string{"fmt": "fmt", "testing": "testing"}, absVals: map[string]int{}}
	model := map[string]*sx{}
	for k, v := range r.Model {
		model[k] = parseSx(v)
	}
	rc.model = model
	var argExprs []string
	for i, prm := range fn.Params {
		key := "in:" + prm.Name()
		mv, ok := model[key]
		if !ok {
			out["replay"] = "model has no value for " + key
			return false
		}
		s, tm, ok := rc.lit(prm.Type(), mv, key)
		if !ok {
			out["replay"] = fmt.Sprintf("input %s of type %s cannot be reconstructed from the model (%s)", prm.Name(), prm.Type(), r.Model[key])
			return false
		}
		if tm != nil {
			rc.pins = append(rc.pins, ex.p.Eq(ex.inputs[key], tm))
		}
		argExprs = append(argExprs, fmt.Sprintf("var a%d %s = %s", i, rc.typeStr(prm.Type()), s))
	}
	// call expression
	var call string
	nres := fn.Signature.Results().Len()
	var lhs []string
	for i := 0; i < nres; i++ {
		lhs = append(lhs, fmt.Sprintf("r%d", i))
	}
	var argNames []string
	for i := range fn.Params {
		argNames = append(argNames, fmt.Sprintf("a%d", i))
	}
	if fn.Signature.Recv() != nil {
		call = fmt.Sprintf("a0.%s(%s)", fn.Name(), strings.Join(argNames[1:], ", "))
	} else {
		call = fmt.Sprintf("%s(%s)", fn.Name(), strings.Join(argNames, ", "))
	}
	if nres > 0 {
		call = strings.Join(lhs, ", ") + " := " + call
	}
	// output leaves
	var lv []leaf
	for i := 0; i < nres; i++ {
		rc.leaves(fmt.Sprintf("r%d", i), rep.results[i], fn.Signature.Results().At(i).Type(), rep.final, 0, "", &lv)
	}
	var body bytes.Buffer
	for _, a := range argExprs {
		body.WriteString("\t" + a + "\n")
	}
	body.WriteString("\t" + call + "\n")
	for i := range lhs {
		body.WriteString(fmt.Sprintf("\t_ = r%d\n", i))
	}
	for i, l := range lv {
		line := fmt.Sprintf("fmt.Printf(\"GOVC-LEAF %d %%v\\n\", %s)", i, l.path)
		if l.cond != "" {
			line = "if " + l.cond + " { " + line + " }"
		}
		body.WriteString("\t" + line + "\n")
	}
	var imps []string
	for path, name := range rc.imports {
		imps = append(imps, fmt.Sprintf("\t%s %q", name, path))
	}
	sort.Strings(imps)
	helper := ""
	if rc.needBig {
		helper = "func govcBig(s string) *big.Int { v, _ := new(big.Int).SetString(s, 10); return v }\n\n"
	}
	if rc.needPtr {
		helper += "func govcPtr[T any](v T) *T { return &v }\n\n"
	}
	src := fmt.Sprintf("package %s\n\nimport (\n%s\n)\n\n%sfunc TestGovcReplay(t *testing.T) {\n\tdefer func() {\n\t\tif r := recover(); r != nil {\n\t\t\tfmt.Printf(\"GOVC-PANIC %%v\\n\", r)\n\t\t}\n\t}()\n%s\tfmt.Println(\"GOVC-DONE\")\n}\n",
		fn.Pkg.Pkg.Name(), strings.Join(imps, "\n"), helper, body.String())
	out["replay_test"] = src
	out["replay_notes"] = rc.notes
	if rel, err := filepath.Rel(repo, filepath.Dir(P.Fset.Position(fn.Pos()).Filename)); err == nil {
		out["replay_pkg_dir"] = rel // (relative to the repository: `govc replay` runs the test there again)
	}
	// run it
	tmp, err := os.MkdirTemp("", "govc-replay")
	if err != nil {
		return false
	}
	defer os.RemoveAll(tmp)
	pkgDir := filepath.Dir(P.Fset.Position(fn.Pos()).Filename)
	testFile := filepath.Join(tmp, "zz_govc_replay_test.go")
	os.WriteFile(testFile, []byte(src), 0o644)
	ov, _ := json.Marshal(map[string]interface{}{"Replace": map[string]string{filepath.Join(pkgDir, "zz_govc_replay_test.go"): testFile}})
	ovFile := filepath.Join(tmp, "overlay.json")
	os.WriteFile(ovFile, ov, 0o644)
	ctx, cancel := context.WithTimeout(context.Background(), 240*time.Second)
	defer cancel()
	cmd := exec.CommandContext(ctx, "go", "test", "-overlay", ovFile, "-vet=off", "-v", "-count=1", "-timeout", "60s", "-run", "^TestGovcReplay$", ".")
	cmd.Dir = pkgDir
	cmd.Env = append(os.Environ(), "GOFLAGS=-mod=mod", "GOPROXY=off")
	var ob bytes.Buffer
	cmd.Stdout = &ob
	cmd.Stderr = &ob
	cmd.Run()
	txt := ob.String()
	if len(txt) > 6000 {
		txt = txt[:6000]
	}
	out["replay_output"] = txt
	if strings.Contains(txt, "GOVC-PANIC") {
		// the real code panics on this input
		out["replay"] = "the real function panics on the model input"
		if strings.HasPrefix(o.Kind, "nopanic") {
			return true
		}
		return false
	}
	if !strings.Contains(txt, "GOVC-DONE") {
		out["replay"] = "replay test did not run to completion"
		return false
	}
	if strings.HasPrefix(o.Kind, "nopanic") {
		out["replay"] = "the real function does not panic on the model input"
		return false
	}
	p := ex.p
	pins := append([]*Term(nil), rc.pins...)
	bySort := map[string][]*Term{}
	for _, c := range rc.absConsts {
		bySort[c.Sort.String()] = append(bySort[c.Sort.String()], c)
	}
	for _, cs := range bySort {
		if len(cs) > 1 {
			pins = append(pins, p.Distinct(cs...))
		}
	}
	observed := map[string]string{}
	for _, line := range strings.Split(txt, "\n") {
		var idx int
		var val string
		if n, _ := fmt.Sscanf(line, "GOVC-LEAF %d %s", &idx, &val); n == 2 && idx < len(lv) {
			l := lv[idx]
			observed[l.path] = val
			switch {
			case l.term.Sort.Kind == SBool:
				pins = append(pins, p.Eq(l.term, p.Bool(val == "true")))
			case l.term.Sort.Kind == SInt:
				if n, ok := new(big.Int).SetString(val, 10); ok {
					pins = append(pins, p.Eq(l.term, p.IntBig(n)))
				}
			}
		}
	}
	out["replay_observed"] = observed
	// re-ask the obligation with inputs and outputs pinned.
	//  A: facts ∧ pins ∧ ¬goal  sat            → the observed behaviour violates the clause
	//  B: facts ∧ pins ∧ goal   unsat, while C: facts ∧ pins is not unsat → likewise (proof-style answer, robust with quantifiers)
	extra := ex.p.And(pins...)
	base := strings.TrimSuffix(r.File, ".smt2")
	fa := base + ".replayA.smt2"
	writeFile(fa, ex.renderOpt(o, []*Term{extra}, false, false))
	ra := Solve(fa, 10, false, false)
	out["replay_query"] = fa
	out["replay_query_status"] = ra.Status
	// a confirmation needs the real run to have used the model's input: when part of it could not be rebuilt (and was
	// left at its zero value, unpinned) the query below would still be satisfied by the model's own value for that part
	partial := false
	for _, n := range rc.notes {
		if strings.Contains(n, "not pinned") {
			partial = true
		}
	}
	if partial {
		out["replay"] = "not confirmed: part of the model's input could not be reconstructed for the real run (see replay_notes)"
		return false
	}
	if ra.Status == "sat" {
		out["replay"] = "confirmed: with the inputs of the model the real function returned the observed values, which violate the clause"
		return true
	}
	if ra.Status != "unsat" {
		fb := base + ".replayB.smt2"
		writeFile(fb, ex.renderOpt(o, []*Term{extra}, false, true))
		rb := Solve(fb, 10, false, false)
		out["replay_queryB_status"] = rb.Status
		if rb.Status == "unsat" {
			oc := *o
			oc.Goal = ex.p.False()
			fc := base + ".replayC.smt2"
			writeFile(fc, ex.renderOpt(&oc, []*Term{extra}, false, false))
			rcx := Solve(fc, 10, false, true)
			out["replay_queryC_status"] = rcx.Status
			if rcx.Status != "unsat" {
				out["replay"] = "confirmed: the values the real function returned on the model input are inconsistent with the clause (clause ∧ observed values is unsatisfiable, observed values alone are not)"
				return true
			}
		}
	}
	out["replay"] = "not confirmed: the real function's output on the model input does not violate the clause under the encoding (" + ra.Status + ")"
	return false
}

var _ = ssa.Function{}

// cmdReplay: `govc replay -prop P -file replay.json [-repo /repo]` runs the test recorded in a replay file again, against
// the repository's present working tree (injected with go test -overlay, nothing is written into the repository), and
// compares what the real function returns now with what it returned when the violation was reported. Exit 1 (with the
// VIOLATION line) when the recorded behaviour is reproduced, 0 when it is not; a record without a replayable input
// (no-failing-input-found) prints the failed obligation and the solver's output and exits 1.
func cmdReplay(args []string) int {
	fs := flag.NewFlagSet("replay", flag.ExitOnError)
	prop := fs.String("prop", "", "property id")
	file := fs.String("file", "", "replay file")
	repo := fs.String("repo", "/repo", "repository")
	fs.Parse(args)
	b, err := os.ReadFile(*file)
	if err != nil {
		fmt.Fprintln(os.Stderr, err)
		return 2
	}
	var rp map[string]interface{}
	if err := json.Unmarshal(b, &rp); err != nil {
		fmt.Fprintln(os.Stderr, err)
		return 2
	}
	str := func(k string) string { s, _ := rp[k].(string); return s }
	fmt.Printf("obligation: %s\nclause:     %s\nat:         %s\n", str("obligation"), str("detail"), str("pos"))
	src := str("replay_test")
	if src == "" {
		fmt.Printf("no replayable input was found for this obligation (status %s); solver output:\n%s\n", str("status"), str("solver_output"))
		fmt.Printf("VIOLATION property=%s replay=%s no-failing-input-found\n", *prop, *file)
		return 1
	}
	dir := str("replay_pkg_dir")
	if dir == "" {
		dir = filepath.Dir(str("pos")) // (older records: the contract file sits in the package directory)
	}
	pkgDir := filepath.Join(*repo, dir)
	tmp, err := os.MkdirTemp("", "govc-replay")
	if err != nil {
		return 2
	}
	defer os.RemoveAll(tmp)
	testFile := filepath.Join(tmp, "zz_govc_replay_test.go")
	os.WriteFile(testFile, []byte(src), 0o644)
	ov, _ := json.Marshal(map[string]interface{}{"Replace": map[string]string{filepath.Join(pkgDir, "zz_govc_replay_test.go"): testFile}})
	ovFile := filepath.Join(tmp, "overlay.json")
	os.WriteFile(ovFile, ov, 0o644)
	ctx, cancel := context.WithTimeout(context.Background(), 240*time.Second)
	defer cancel()
	cmd := exec.CommandContext(ctx, "go", "test", "-overlay", ovFile, "-vet=off", "-v", "-count=1", "-timeout", "60s", "-run", "^TestGovcReplay$", ".")
	cmd.Dir = pkgDir
	cmd.Env = append(os.Environ(), "GOFLAGS=-mod=mod", "GOPROXY=off")
	var ob bytes.Buffer
	cmd.Stdout = &ob
	cmd.Stderr = &ob
	cmd.Run()
	leaves := func(txt string) []string {
		var ls []string
		for _, line := range strings.Split(txt, "\n") {
			if strings.HasPrefix(line, "GOVC-LEAF ") || strings.HasPrefix(line, "GOVC-PANIC") {
				ls = append(ls, strings.TrimSpace(line))
			}
		}
		return ls
	}
	now, then := leaves(ob.String()), leaves(str("replay_output"))
	fmt.Printf("model input: %v\n", rp["model"])
	fmt.Printf("observed when reported: %v\nobserved now:           %v\n", then, now)
	if !strings.Contains(ob.String(), "GOVC-DONE") && !strings.Contains(ob.String(), "GOVC-PANIC") {
		fmt.Printf("the replay test did not run to completion on the present tree:\n%s\n", ob.String())
		return 2
	}
	if strings.Join(now, "|") == strings.Join(then, "|") && len(now) > 0 {
		fmt.Printf("the recorded behaviour is reproduced on the present tree (%s)\n", str("replay"))
		fmt.Printf("VIOLATION property=%s replay=%s\n", *prop, *file)
		return 1
	}
	fmt.Println("the recorded behaviour is NOT reproduced on the present tree")
	return 0
}
