package main

import (
	"encoding/json"
	"flag"
	"fmt"
	"go/ast"
	"go/constant"
	"go/token"
	"go/types"
	"golang.org/x/tools/go/ssa"
	"os"
	"path/filepath"
	"regexp"
	"runtime"
	"runtime/pprof"
	"sort"
	"strconv"
	"strings"
	"sync"
	"time"
)

type KnownFinding struct {
	Kind       string // "known" or "fixed"
	Property   string
	Obligation string
	Scenario   string // contract expression over the function's inputs describing the failing input/history
	Text       string
}

func loadKnown(path string) []KnownFinding {
	var out []KnownFinding
	b, err := os.ReadFile(path)
	if err != nil {
		return nil
	}
	for _, l := range strings.Split(string(b), "\n") {
		l = strings.TrimSpace(l)
		if l == "" || strings.HasPrefix(l, "#") {
			continue
		}
		kf := KnownFinding{}
		switch {
		case strings.HasPrefix(l, "known:"):
			kf.Kind = "known"
			l = strings.TrimSpace(strings.TrimPrefix(l, "known:"))
		case strings.HasPrefix(l, "fixed:"):
			kf.Kind = "fixed"
			l = strings.TrimSpace(strings.TrimPrefix(l, "fixed:"))
		default:
			continue
		}
		if i := strings.Index(l, "scenario={{"); i >= 0 {
			if j := strings.Index(l[i:], "}}"); j > 0 {
				kf.Scenario = strings.TrimSpace(l[i+len("scenario={{") : i+j])
				l = l[:i] + l[i+j+2:]
			}
		}
		for _, f := range strings.Fields(l) {
			if strings.HasPrefix(f, "property=") {
				kf.Property = strings.TrimPrefix(f, "property=")
			}
			if strings.HasPrefix(f, "obligation=") {
				kf.Obligation = strings.TrimPrefix(f, "obligation=")
			}
		}
		kf.Text = l
		out = append(out, kf)
	}
	return out
}

// contractPackages finds the packages whose contract file mentions the property.
func contractPackages(repo, prop string) ([]string, error) {
	var pkgs []string
	re := regexp.MustCompile(`\b` + regexp.QuoteMeta(prop) + `\b`)
	err := filepath.Walk(repo, func(path string, info os.FileInfo, err error) error {
		if err != nil {
			return nil
		}
		if info.IsDir() {
			n := info.Name()
			if n == ".git" || n == "node_modules" || n == "docs" {
				return filepath.SkipDir
			}
			return nil
		}
		if info.Name() != "zz_verif_contracts.go" {
			return nil
		}
		b, err := os.ReadFile(path)
		if err != nil {
			return nil
		}
		if prop == "" || re.Match(b) {
			rel, _ := filepath.Rel(repo, filepath.Dir(path))
			pkgs = append(pkgs, "./"+rel)
		}
		return nil
	})
	sort.Strings(pkgs)
	return pkgs, err
}

type oblJSON struct {
	Name    string  `json:"name"`
	Kind    string  `json:"kind"`
	Detail  string  `json:"detail,omitempty"`
	Pos     string  `json:"pos,omitempty"`
	Status  string  `json:"status"`
	Backend string  `json:"backend,omitempty"`
	Seconds float64 `json:"seconds"`
	File    string  `json:"smt_file,omitempty"`
}

func main() {
	if len(os.Args) < 2 {
		fmt.Fprintln(os.Stderr, "usage: govc check|dump ...")
		os.Exit(2)
	}
	switch os.Args[1] {
	case "check":
		os.Exit(cmdCheck(os.Args[2:]))
	case "ssa":
		cmdSSA(os.Args[2:])
	case "sweep":
		os.Exit(cmdSweep(os.Args[2:]))
	case "sqlinv":
		os.Exit(cmdSQLInv(os.Args[2:]))
	case "paramnames":
		os.Exit(cmdParamNames(os.Args[2:]))
	case "appendsites":
		os.Exit(cmdAppendSites(os.Args[2:]))
	case "mutsites":
		os.Exit(cmdMutSites(os.Args[2:]))
	case "replay":
		os.Exit(cmdReplay(os.Args[2:]))
	default:
		fmt.Fprintln(os.Stderr, "unknown command")
		os.Exit(2)
	}
}

func cmdCheck(args []string) int {
	fs := flag.NewFlagSet("check", flag.ExitOnError)
	prop := fs.String("prop", "", "property id")
	tier := fs.String("tier", "quick", "quick|thorough")
	repo := fs.String("repo", "/repo", "repository")
	verif := fs.String("verif", "/verif", "verif dir")
	only := fs.String("only", "", "only functions whose name contains this")
	timeout := fs.Int("timeout", 0, "per-obligation solver timeout (s)")
	verbose := fs.Bool("v", false, "verbose")
	noEvidence := fs.Bool("no-evidence", false, "do not write the evidence file")
	cpuprof := fs.String("cpuprofile", "", "write a CPU profile")
	fs.Parse(args)
	if *cpuprof != "" {
		f, _ := os.Create(*cpuprof)
		pprof.StartCPUProfile(f)
		go func() {
			time.Sleep(30 * time.Second)
			pprof.StopCPUProfile()
			f.Close()
		}()
	}
	t0 := time.Now()
	seed := 0
	if s := os.Getenv("VERIF_SEED"); s != "" {
		seed, _ = strconv.Atoi(s)
	}
	to := *timeout
	baseTo := 0 // the budget before it was stretched with the load
	if to == 0 {
		to = 10
		if *tier == "thorough" {
			to = 60
		}
		// on a machine that is busier than it has cores (several checks started at once) solver time stretches: the
		// budget stretches with it (up to four times), so that load alone does not turn into timeouts
		baseTo = to
		if k := loadFactor(); k > 1 {
			to = int(float64(to) * k)
		}
	}
	if baseTo == 0 {
		baseTo = to
	}
	// one directory per run (two runs of the same property may overlap); directories of finished runs are removed
	// once they are older than half an hour
	propOut := filepath.Join(*verif, "out", *prop)
	if ents, err := os.ReadDir(propOut); err == nil {
		for _, e := range ents {
			if fi, err := e.Info(); err == nil && time.Since(fi.ModTime()) > 30*time.Minute {
				os.RemoveAll(filepath.Join(propOut, e.Name()))
			}
		}
	}
	outDir := filepath.Join(propOut, fmt.Sprintf("run-%d", os.Getpid()))
	os.RemoveAll(outDir)
	os.MkdirAll(outDir, 0o755)
	replayDir := filepath.Join(*verif, "replays", *prop)
	os.MkdirAll(replayDir, 0o755)

	pkgs, err := contractPackages(*repo, *prop)
	if err != nil || len(pkgs) == 0 {
		fmt.Printf("govc: no contract files mention %s (err=%v)\n", *prop, err)
		fmt.Printf("VIOLATION property=%s replay=%s no-failing-input-found\n", *prop, writeReplay(replayDir, "contracts-missing", map[string]interface{}{
			"obligation": "#contract.files", "reason": "no contract file for this property was found in the repository"}))
		return 1
	}
	P, err := LoadProgram(*repo, pkgs, filepath.Join(*verif, "contracts"))
	if err != nil {
		fmt.Printf("govc: load failed: %v\n", err)
		fmt.Printf("VIOLATION property=%s replay=%s no-failing-input-found\n", *prop, writeReplay(replayDir, "load-failed", map[string]interface{}{
			"obligation": "#load", "reason": err.Error()}))
		return 1
	}
	P.CS.Errors = append(P.CS.Errors, InstantiateSchemas(P)...)
	for _, e := range P.CS.Errors {
		fmt.Println("contract error:", e)
	}
	var reports []*FuncReport
	var keys []string
	for k := range P.CS.Funcs {
		keys = append(keys, k)
	}
	sort.Strings(keys)
	var mu sync.Mutex
	var wg sync.WaitGroup
	checked := map[*FuncContract]bool{}
	sem := make(chan struct{}, 8)
	for _, k := range keys {
		c := P.CS.Funcs[k]
		if c.Trusted && len(c.SQLTexts)+len(c.ConstTexts) > 0 && hasProp(c.Props, *prop) {
			if fn := P.FindFunc(c.PkgPath, c.Key); fn != nil {
				reports = append(reports, CheckSQLPins(P, fn, c))
				if len(labelledRequires(c)) > 0 {
					reports = append(reports, CheckCallers(P, fn, c))
				}
			} else {
				reports = append(reports, &FuncReport{Func: k, Key: c.Key, Error: "contract names a function that does not exist (#contract.target)"})
			}
			continue
		}
		if c.Trusted && len(labelledRequires(c)) > 0 && hasProp(c.Props, *prop) && (*only == "" || strings.Contains(k, *only)) {
			if fn := P.FindFunc(c.PkgPath, c.Key); fn != nil {
				rep := CheckCallers(P, fn, c)
				mu.Lock()
				reports = append(reports, rep)
				mu.Unlock()
			}
		}
		if c.Trusted || c.Pure && len(c.Ensures) == 0 {
			continue
		}
		relevant := hasProp(c.Props, *prop)
		for _, e := range c.Ensures {
			if hasProp(e.Props, *prop) {
				relevant = true
			}
		}
		for _, b := range c.Behaviors {
			if hasProp(b.Props, *prop) {
				relevant = true
			}
		}
		if !relevant {
			continue
		}
		if *only != "" && !strings.Contains(k, *only) {
			continue
		}
		fn := P.FindFunc(c.PkgPath, c.Key)
		if fn == nil {
			rep := &FuncReport{Func: k, Key: c.Key, Error: "contract names a function that does not exist (#contract.target)"}
			reports = append(reports, rep)
			continue
		}
		if len(c.OnlyCallers) > 0 || len(labelledRequires(c)) > 0 {
			rep := CheckCallers(P, fn, c)
			mu.Lock()
			reports = append(reports, rep)
			mu.Unlock()
		}
		if len(c.SQLTexts) > 0 {
			// a proved function whose callee contracts assume the meaning of its SQL: the statements are pinned too
			rep := CheckSQLPins(P, fn, c)
			rep.Func += " (sql)"
			mu.Lock()
			reports = append(reports, rep)
			mu.Unlock()
		}
		for _, bc := range append([]*FuncContract{c}, c.Behaviors...) {
			if bc.Trusted {
				continue
			}
			if len(c.Behaviors) > 0 {
				// several behaviours with their own property lists: only those of this property are generated
				rel := hasProp(bc.Props, *prop)
				for _, e := range bc.Ensures {
					if hasProp(e.Props, *prop) {
						rel = true
					}
				}
				if !rel {
					continue
				}
			}
			checked[bc] = true
			wg.Add(1)
			go func(c *FuncContract) {
				defer wg.Done()
				sem <- struct{}{}
				defer func() { <-sem }()
				rep := CheckFunc(P, fn, c)
				mu.Lock()
				reports = append(reports, rep)
				mu.Unlock()
			}(bc)
		}
	}
	wg.Wait()
	// closure over contract uses: a proved function whose contract was used at a call site of a function checked for
	// this property carries part of the property's argument, whatever properties its own block lists; it is checked in
	// this run too (its obligations are counted under this property), and so on transitively
	closureAdded := 0
	for round := 0; round < 8 && *only == ""; round++ {
		var todo []*FuncContract
		for _, k := range keys {
			c := P.CS.Funcs[k]
			for _, bc := range append([]*FuncContract{c}, c.Behaviors...) {
				if bc.Used && !bc.Trusted && !checked[bc] && !(bc.Pure && len(bc.Ensures) == 0) {
					todo = append(todo, bc)
				}
			}
		}
		if len(todo) == 0 {
			break
		}
		for _, bc := range todo {
			checked[bc] = true
			fn := P.FindFunc(bc.PkgPath, bc.Key)
			if fn == nil {
				continue
			}
			closureAdded++
			wg.Add(1)
			go func(c *FuncContract, fn *ssa.Function) {
				defer wg.Done()
				sem <- struct{}{}
				defer func() { <-sem }()
				rep := CheckFunc(P, fn, c)
				for _, o := range rep.Obligations {
					o.Props = []string{*prop}
				}
				mu.Lock()
				reports = append(reports, rep)
				mu.Unlock()
			}(bc, fn)
		}
		wg.Wait()
	}
	_ = closureAdded
	// a trusted data-access function whose assumed contract was used by any function checked above has its SQL
	// pinned in this run too, whatever properties its own block lists
	for _, k := range keys {
		c := P.CS.Funcs[k]
		if c.Trusted && len(c.SQLTexts) > 0 && c.Used && !hasProp(c.Props, *prop) {
			if fn := P.FindFunc(c.PkgPath, c.Key); fn != nil {
				rep := CheckSQLPins(P, fn, c)
				for _, o := range rep.Obligations {
					o.Props = []string{*prop}
				}
				reports = append(reports, rep)
			}
		}
	}
	// pinned texts of non-Go files (embedded SQL migrations the assumed storage semantics rest on)
	{
		ex := NewExec(P)
		rep := &FuncReport{Func: "file pins", ex: ex}
		for i, fp := range P.CS.FilePins {
			if !hasProp(fp.Props, *prop) {
				continue
			}
			data, err := os.ReadFile(filepath.Join(fp.Dir, fp.Path))
			ok := err == nil && strings.Contains(strings.Join(strings.Fields(string(data)), " "), strings.Join(strings.Fields(fp.Text), " "))
			rel := relPath(P, filepath.Join(fp.Dir, fp.Path))
			rep.Obligations = append(rep.Obligations, &Obligation{Name: fmt.Sprintf("%s#file.text[%d]", rel, i), Kind: "sql.text",
				Detail: "the file still contains the text the assumed semantics rest on: " + fp.Text, Goal: ex.p.Bool(ok), PC: ex.p.True(),
				Func: rel, Props: fp.Props, Pos: fmt.Sprintf("%s:%d", relPath(P, fp.File), fp.Line)})
		}
		if len(rep.Obligations) > 0 {
			reports = append(reports, rep)
		}
	}
	for _, l := range P.CS.Lemmas {
		if hasProp(l.Props, *prop) && (*only == "" || strings.Contains(l.Name, *only)) {
			reports = append(reports, CheckLemma(P, l, l.PkgPath))
		}
	}
	sort.Slice(reports, func(i, j int) bool { return reports[i].Func < reports[j].Func })

	// collect obligations of this property
	type job struct {
		rep *FuncReport
		o   *Obligation
	}
	var jobs []job
	engineErrors := 0
	for _, rep := range reports {
		if rep.Error != "" {
			engineErrors++
		}
		for _, o := range rep.Obligations {
			if len(o.Props) == 0 || hasProp(o.Props, *prop) {
				jobs = append(jobs, job{rep, o})
			}
		}
	}
	// solve
	workers := 6
	jsem := make(chan struct{}, workers)
	var jwg sync.WaitGroup
	// rendering touches the (not thread-safe) term pool of the function's executor: do it sequentially
	files := make([][]string, len(jobs))
	for i, j := range jobs {
		if len(j.o.Parts) > 0 {
			for pi, part := range j.o.Parts {
				po := *j.o
				po.PC, po.Goal = part.PC, part.Goal
				f := oblFile(outDir, fmt.Sprintf("%s@%d", j.o.Name, pi))
				writeFile(f, j.rep.ex.Render(&po))
				j.o.ModelKeys = po.ModelKeys
				files[i] = append(files[i], f)
			}
			continue
		}
		files[i] = []string{oblFile(outDir, j.o.Name)}
		writeFile(files[i][0], j.rep.ex.Render(j.o))
	}
	var rmu sync.Mutex
	for i, j := range jobs {
		for _, f := range files[i] {
			jwg.Add(1)
			go func(j job, f string, nparts int) {
				defer jwg.Done()
				jsem <- struct{}{}
				defer func() { <-jsem }()
				r := Solve(f, to, *tier == "thorough", j.o.Kind == "requires-sat" || j.o.Kind == "reach")
				rmu.Lock()
				defer rmu.Unlock()
				// combine: discharged iff every part is unsat; the first failing part is the reported one
				if j.o.Result == nil {
					j.o.Result = r
					return
				}
				prev := j.o.Result
				total := prev.Seconds + r.Seconds
				if prev.Status == "unsat" && r.Status != "unsat" {
					j.o.Result = r
				} else if prev.Status != "unsat" && prev.Status != "sat" && r.Status == "sat" {
					j.o.Result = r
				}
				j.o.Result.Seconds = total
			}(j, f, len(files[i]))
		}
	}
	jwg.Wait()
	// a timeout is not a verdict: obligations that ran out of time (a loaded machine is enough for that in the quick
	// tier) get one second attempt with six times the budget and every back end before they are reported - unless the
	// run has a definite failure anyway (then the verdict cannot change), and for at most eight of them (a real break
	// typically times out many dependent stepping stones; re-solving all of them would only make the report slow)
	if os.Getenv("VERIF_NO_RETRY") == "" {
		definite := false
		var again []int
		for i, j := range jobs {
			if j.o.Result == nil || j.o.Kind == "requires-sat" || j.o.Kind == "reach" {
				continue
			}
			switch j.o.Result.Status {
			case "unsat":
			case "timeout":
				again = append(again, i)
			default:
				definite = true
			}
		}
		if !definite && len(again) > 0 && len(again) <= 8 {
			// the second attempt runs two at a time and its budget follows the load of the machine as it is now
			// (six times the unstretched budget, stretched once with the present load, never more than 2.5 minutes in
			// the quick tier: a broken tree must still be reported in reasonable time)
			budget := baseTo * 6
			if k := loadFactor(); k > 1 {
				budget = int(float64(budget) * k)
			}
			if *tier != "thorough" && budget > 150 {
				budget = 150
			}
			rsem := make(chan struct{}, 3)
			var rwg sync.WaitGroup
			for _, i := range again {
				rwg.Add(1)
				go func(i int) {
					defer rwg.Done()
					rsem <- struct{}{}
					defer func() { <-rsem }()
					j := jobs[i]
					first := j.o.Result.Seconds
					var res *SolveResult
					for _, f := range files[i] {
						r := Solve(f, budget, false, false)
						if res == nil || (res.Status == "unsat" && r.Status != "unsat") {
							res = r
						}
						if r.Status != "unsat" {
							break
						}
					}
					if res != nil {
						res.Seconds += first
						res.Retried = true
						rmu.Lock()
						j.o.Result = res
						rmu.Unlock()
					}
				}(i)
			}
			rwg.Wait()
		}
	}

	known := loadKnown(filepath.Join(*verif, "known_findings.txt"))
	violations := 0
	covers, covered := 0, 0
	discharged := 0
	knownHits := 0
	byBackend := map[string]int{}
	solverTime := 0.0
	var slowest *Obligation
	var oj []oblJSON
	var samples []interface{}
	fnSet := map[string]bool{}
	assumptions := map[string]bool{}
	for _, rep := range reports {
		fnSet[rep.Func] = true
		for _, a := range rep.Assumptions {
			assumptions[a] = true
		}
	}
	for _, rep := range reports {
		if rep.Error != "" {
			name := rep.Func + "#engine"
			if matchKnown(known, *prop, name) {
				fmt.Printf("KNOWN-FINDING: property=%s %s\n", *prop, name)
				knownHits++
				continue
			}
			path := writeReplay(replayDir, name, map[string]interface{}{"obligation": name, "reason": rep.Error,
				"note": "the verifier could not process this function (contract target missing, construct outside the supported subset, or a contract that no longer type-checks against the code)"})
			fmt.Printf("FAILED %s: %s\n", name, rep.Error)
			fmt.Printf("VIOLATION property=%s replay=%s no-failing-input-found\n", *prop, path)
			violations++
			oj = append(oj, oblJSON{Name: name, Kind: "engine", Detail: rep.Error, Status: "error"})
		}
	}
	for _, j := range jobs {
		o := j.o
		r := o.Result
		solverTime += r.Seconds
		ok := false
		isCover := o.Kind == "requires-sat" || o.Kind == "reach"
		if isCover {
			// cover: must not be refutable (unsat = vacuous)
			covers++
			switch r.Status {
			case "unsat":
				r.Status = "vacuous"
			case "sat":
				r.Status = "covered"
				covered++
				ok = true
			default:
				r.Status = "cover-undecided"
				ok = true
			}
		} else {
			ok = r.Status == "unsat"
		}
		if r.Disagree != "" {
			ok = false
		}
		oj = append(oj, oblJSON{Name: o.Name, Kind: o.Kind, Detail: o.Detail, Pos: o.Pos, Status: r.Status, Backend: r.Backend, Seconds: r.Seconds, File: r.File})
		if ok && isCover {
			if *verbose {
				fmt.Printf("cover  %-70s %s %s %.2fs\n", o.Name, r.Status, r.Backend, r.Seconds)
			}
			continue
		}
		if ok {
			discharged++
			byBackend[r.Backend]++
			if slowest == nil || r.Seconds > slowest.Result.Seconds {
				slowest = o
			}
			if len(samples) < 6 && o.Kind != "requires-sat" && !strings.HasPrefix(o.Kind, "nopanic") {
				samples = append(samples, map[string]interface{}{"obligation": o.Name, "clause": o.Detail, "answer": r.Status, "backend": r.Backend, "seconds": r.Seconds})
			}
			if *verbose {
				fmt.Printf("ok     %-70s %s %.2fs\n", o.Name, r.Backend, r.Seconds)
			}
			continue
		}
		if kf := findKnown(known, *prop, o.Name); kf != nil {
			if kf.Scenario == "" {
				fmt.Printf("KNOWN-FINDING: property=%s %s (%s)\n", *prop, o.Name, kf.Text)
				knownHits++
				continue
			}
			// the finding is identified by a scenario: outside it the obligation must still hold
			if j.rep.pre != nil {
				ok, why := j.rep.holdsOutside(o, kf.Scenario, outDir, to)
				if ok {
					txt := kf.Text
					if i := strings.Index(txt, "::"); i >= 0 {
						txt = strings.TrimSpace(txt[i+2:])
					}
					fmt.Printf("KNOWN-FINDING: property=%s %s fails exactly in the recorded scenario: %s\n", *prop, o.Name, txt)
					knownHits++
					discharged++
					byBackend["outside-known-scenario"]++
					continue
				}
				fmt.Printf("note: %s also fails outside the recorded known-finding scenario (%s)\n", o.Name, why)
			}
		}
		violations++
		fmt.Printf("FAILED %s [%s] %s  (%s; at %s)\n", o.Name, r.Status, o.Detail, r.Backend, o.Pos)
		rp := map[string]interface{}{"obligation": o.Name, "detail": o.Detail, "pos": o.Pos, "status": r.Status, "backend": r.Backend,
			"smt_file": r.File, "solver_output": r.Output, "all_backends": r.All, "disagreement": r.Disagree}
		confirmed := false
		if (r.Status == "unknown" || r.Status == "timeout") && j.rep.fn != nil && !isCover {
			// ground relaxation: candidate inputs only; they count only if they replay on the real code
			gfile := strings.TrimSuffix(r.File, ".smt2") + ".ground.smt2"
			writeFile(gfile, j.rep.ex.renderOpt(o, nil, true, false))
			if gr := Solve(gfile, 5, false, false); gr.Status == "sat" && gr.ModelList != nil {
				r.ModelList = gr.ModelList
				rp["candidate_from"] = "ground relaxation (quantified facts dropped): " + gfile
				r.Status = r.Status + "+candidate"
			}
		}
		if r.ModelList != nil {
			r.Model = map[string]string{}
			for i, k := range o.ModelKeys {
				if i < len(r.ModelList) {
					r.Model[k] = r.ModelList[i]
				}
			}
		}
		if r.Model != nil {
			rp["model"] = r.Model
			// a replay is an extra: whatever goes wrong while building it, the violation is still reported
			func() {
				defer func() {
					if e := recover(); e != nil {
						rp["replay_error"] = fmt.Sprint(e)
						confirmed = false
					}
				}()
				confirmed = tryReplay(P, j.rep, o, r, rp, *repo)
			}()
		}
		path := writeReplay(replayDir, o.Name, rp)
		if confirmed {
			fmt.Printf("VIOLATION property=%s replay=%s\n", *prop, path)
		} else {
			fmt.Printf("VIOLATION property=%s replay=%s no-failing-input-found\n", *prop, path)
		}
	}
	total := len(jobs) - covers + engineErrors
	if total == 0 {
		fmt.Printf("govc: no obligations generated for %s — refusing to report success\n", *prop)
		fmt.Printf("VIOLATION property=%s replay=%s no-failing-input-found\n", *prop, writeReplay(replayDir, "no-obligations", map[string]interface{}{
			"obligation": "#inventory", "reason": "zero obligations were generated"}))
		violations++
	}
	var fnList []string
	for f := range fnSet {
		fnList = append(fnList, f)
	}
	sort.Strings(fnList)
	var asl []string
	for a := range assumptions {
		asl = append(asl, a)
	}
	sort.Strings(asl)
	wall := time.Since(t0).Seconds()
	if len(samples) == 0 {
		for _, x := range oj {
			if len(samples) < 3 {
				samples = append(samples, x)
			}
		}
	}
	ev := map[string]interface{}{
		"property_id": *prop,
		"tier":        *tier,
		"seed":        seed,
		"level":       "proof",
		"wall_s":      wall,
		"violations":  violations,
		"assumptions": append(asl, standingAssumptions...),
		"coverage": map[string]interface{}{
			"obligations":              total,
			"discharged":               discharged,
			"known_findings":           knownHits,
			"vacuity_covers":           covers,
			"vacuity_covers_sat":       covered,
			"checker_cmd":              fmt.Sprintf("govc check -prop %s -tier %s (per obligation: z3-new | z3 4.8.12 | cvc5 1.0.3 race, %ds)", *prop, *tier, to),
			"trusted_base":             trustedBase,
			"functions_under_contract": fnList,
			"by_backend":               byBackend,
			"solver_time_s":            solverTime,
			"samples":                  samples,
			"obligation_list":          oj,
			"integers":                 "Go integers are mathematical Ints with explicit wrap-around at every arithmetic operation (exact machine semantics); spec arithmetic is unbounded",
			"slowest":                  slowestInfo(slowest),
		},
	}
	if !*noEvidence {
		b, _ := json.MarshalIndent(ev, "", " ")
		os.MkdirAll(filepath.Join(*verif, "evidence"), 0o755)
		os.WriteFile(filepath.Join(*verif, "evidence", *prop+".json"), b, 0o644)
	}
	fmt.Printf("govc: property %s: %d obligations, %d discharged, %d known findings, %d violations, %d functions, %.1fs\n",
		*prop, total, discharged, knownHits, violations, len(fnList), wall)
	if violations > 0 {
		if os.Getenv("VERIF_DROP_SMT") != "" {
			os.RemoveAll(outDir) // (bulk runs on scratch copies: seeds, mutants)
		}
		return 1
	}
	if os.Getenv("VERIF_KEEP_SMT") == "" {
		os.RemoveAll(outDir) // the queries of a clean run are not needed afterwards (regenerated on every run)
	}
	return 0
}

func slowestInfo(o *Obligation) interface{} {
	if o == nil {
		return nil
	}
	return map[string]interface{}{"obligation": o.Name, "seconds": o.Result.Seconds, "backend": o.Result.Backend}
}

var trustedBase = []string{
	"go/packages + go/types + go/ssa (x/tools v0.29.0) reflect Go semantics",
	"govc translation of SSA to verification conditions (mitigated by must-fail corpus and counterexample replay)",
	"SMT solvers z3 5.1.0, z3 4.8.12, cvc5 1.0.3 are sound",
	"assumed contracts on dependencies in /verif/contracts/*.contracts",
}

var standingAssumptions = []string{
	"no data races: mutex operations are no-ops in the verification conditions",
	"termination is only proved where a decreases clause is given",
}

func findKnown(known []KnownFinding, prop, name string) *KnownFinding {
	for i, k := range known {
		if k.Kind == "known" && k.Property == prop && k.Obligation == name {
			return &known[i]
		}
	}
	return nil
}

func matchKnown(known []KnownFinding, prop, name string) bool {
	for _, k := range known {
		if k.Kind == "known" && k.Property == prop && k.Obligation == name {
			return true
		}
	}
	return false
}

func writeReplay(dir, name string, content map[string]interface{}) string {
	n := fileSafe.ReplaceAllString(name, "_")
	if len(n) > 150 {
		n = n[:150]
	}
	path := filepath.Join(dir, n+".json")
	b, _ := json.MarshalIndent(content, "", " ")
	os.MkdirAll(dir, 0o755)
	os.WriteFile(path, b, 0o644)
	return path
}

func cmdSSA(args []string) {
	// govc ssa <pkgpattern> <RelString>
	P, err := LoadProgram("/repo", []string{args[0]}, "")
	if err != nil {
		fmt.Println(err)
		os.Exit(1)
	}
	for path := range P.ByPath {
		if fn := P.FindFunc(path, args[1]); fn != nil {
			fn.WriteTo(os.Stdout)
			for i, l := range P.Loops(fn) {
				fmt.Printf("loop %d: header block %d, %d blocks\n", i, l.Header.Index, len(l.Blocks))
			}
		}
	}
}

// cmdSweep: zero-annotation bounds / arithmetic safety sweep over every function of the given packages. The output is
// a list of candidate panics (obligations that are not discharged without any precondition) for manual triage: it is
// a search aid for genuine defects, not a check registered in the manifest.
func cmdSweep(args []string) int {
	fs := flag.NewFlagSet("sweep", flag.ExitOnError)
	repo := fs.String("repo", "/repo", "repository")
	verif := fs.String("verif", "/verif", "verif dir")
	pkgsFlag := fs.String("pkgs", "", "comma separated package patterns (./x/...)")
	timeout := fs.Int("timeout", 5, "per-obligation solver timeout (s)")
	fs.Parse(args)
	pats := strings.Split(*pkgsFlag, ",")
	P, err := LoadProgram(*repo, pats, filepath.Join(*verif, "contracts"))
	if err != nil {
		fmt.Printf("sweep: load failed: %v\n", err)
		return 2
	}
	outDir := filepath.Join(*verif, "out", "sweep")
	os.RemoveAll(outDir)
	os.MkdirAll(outDir, 0o755)
	type cand struct {
		o   *Obligation
		rep *FuncReport
	}
	var fns []*ssa.Function
	for _, pk := range P.SSA.AllPackages() {
		if pk.Pkg == nil || !strings.HasPrefix(pk.Pkg.Path(), "github.com/agglayer/aggkit") {
			continue
		}
		match := false
		for _, pt := range pats {
			pt = strings.TrimSuffix(strings.TrimPrefix(pt, "./"), "/...")
			if strings.HasSuffix(pk.Pkg.Path(), "/"+pt) || strings.Contains(pk.Pkg.Path(), "/"+pt+"/") {
				match = true
			}
		}
		if !match || strings.Contains(pk.Pkg.Path(), "/mocks") {
			continue
		}
		for _, m := range pk.Members {
			if f, ok := m.(*ssa.Function); ok && f.Blocks != nil && f.Synthetic == "" {
				fns = append(fns, f)
			}
			if t, ok := m.(*ssa.Type); ok {
				for _, recv := range []types.Type{t.Type(), types.NewPointer(t.Type())} {
					ms := P.SSA.MethodSets.MethodSet(recv)
					for i := 0; i < ms.Len(); i++ {
						if f := P.SSA.MethodValue(ms.At(i)); f != nil && f.Blocks != nil && f.Synthetic == "" && f.Pkg == pk {
							dup := false
							for _, g := range fns {
								if g == f {
									dup = true
								}
							}
							if !dup {
								fns = append(fns, f)
							}
						}
					}
				}
			}
		}
	}
	sort.Slice(fns, func(i, j int) bool { return fns[i].String() < fns[j].String() })
	total, kept, errs := 0, 0, 0
	for _, fn := range fns {
		if P.Fset != nil && strings.HasSuffix(P.Fset.Position(fn.Pos()).Filename, "_test.go") {
			continue
		}
		c := &FuncContract{PkgPath: fn.Pkg.Pkg.Path(), Key: fn.RelString(fn.Pkg.Pkg), Loops: map[int]*LoopSpec{}, Asserts: map[string][]*Clause{}}
		for _, m := range []string{"heap"} {
			e, _ := parseSpecExpr(m)
			c.Modifies = append(c.Modifies, &Clause{Text: m, Expr: e})
		}
		c.HasMod = true
		rep := SweepFunc(P, fn, c)
		if rep.Error != "" {
			errs++
			fmt.Printf("skip   %s: %s\n", rep.Func, rep.Error)
			continue
		}
		for _, o := range rep.Obligations {
			if !strings.HasPrefix(o.Kind, "nopanic.") {
				continue
			}
			total++
			f := oblFile(outDir, o.Name)
			writeFile(f, rep.ex.Render(o))
			r := Solve(f, *timeout, false, false)
			if r.Status == "unsat" {
				os.Remove(f)
				continue
			}
			kept++
			fmt.Printf("CAND   %-8s %s %s  (%s)\n", r.Status, o.Pos, o.Detail, o.Name)
		}
	}
	fmt.Printf("sweep: %d functions, %d safety conditions, %d not discharged without preconditions, %d functions outside the subset\n", len(fns), total, kept, errs)
	return 0
}

// cmdSQLInv: inventory of the SQL statements in the module's source: every function (closures included) that holds a
// string constant shaped like a data statement, and whether a contract pins that text. A search aid for assumption A5.
func cmdSQLInv(args []string) int {
	fs := flag.NewFlagSet("sqlinv", flag.ExitOnError)
	repo := fs.String("repo", "/repo", "repository")
	verif := fs.String("verif", "/verif", "verif dir")
	fs.Parse(args)
	P, err := LoadProgram(*repo, []string{"./..."}, filepath.Join(*verif, "contracts"))
	if err != nil {
		fmt.Printf("sqlinv: load failed: %v\n", err)
		return 2
	}
	var lines []string
	seen := map[*ssa.Function]bool{}
	var visit func(top, f *ssa.Function)
	visit = func(top, f *ssa.Function) {
		if seen[f] || f.Blocks == nil {
			return
		}
		seen[f] = true
		if P.Fset != nil && strings.HasSuffix(P.Fset.Position(f.Pos()).Filename, "_test.go") {
			return
		}
		var stmts []string
		for _, b := range f.Blocks {
			for _, in := range b.Instrs {
				for _, op := range in.Operands(nil) {
					if k, ok := (*op).(*ssa.Const); ok && k.Value != nil && k.Value.Kind() == constant.String {
						if t := constant.StringVal(k.Value); looksLikeSQL(t) {
							stmts = append(stmts, normSQL(t))
						}
					}
				}
			}
		}
		if len(stmts) > 0 {
			key := top.Pkg.Pkg.Path() + "." + top.RelString(top.Pkg.Pkg)
			c := P.CS.Funcs[key]
			for _, t := range stmts {
				st := "UNPINNED"
				if c != nil {
					st = "contract-without-pin"
					for _, pt := range c.SQLTexts {
						if normSQL(pt) == t {
							st = "pinned"
						}
					}
				}
				lines = append(lines, fmt.Sprintf("%-22s %s :: %s", st, key, t))
			}
		}
		for _, a := range f.AnonFuncs {
			visit(top, a)
		}
	}
	for _, pk := range P.SSA.AllPackages() {
		if pk.Pkg == nil || !strings.HasPrefix(pk.Pkg.Path(), "github.com/agglayer/aggkit") || strings.Contains(pk.Pkg.Path(), "/mocks") {
			continue
		}
		for _, m := range pk.Members {
			if f, ok := m.(*ssa.Function); ok && f.Synthetic == "" {
				visit(f, f)
			}
			if t, ok := m.(*ssa.Type); ok {
				for _, recv := range []types.Type{t.Type(), types.NewPointer(t.Type())} {
					ms := P.SSA.MethodSets.MethodSet(recv)
					for i := 0; i < ms.Len(); i++ {
						if f := P.SSA.MethodValue(ms.At(i)); f != nil && f.Synthetic == "" && f.Pkg == pk {
							visit(f, f)
						}
					}
				}
			}
		}
	}
	sort.Strings(lines)
	for _, l := range lines {
		fmt.Println(l)
	}
	return 0
}

// cmdMutSites: the mutation sites (binary operators) inside the functions that carry a proved contract for a property:
// one line per site "file<TAB>byte offset<TAB>old operator<TAB>new operator<TAB>function". Used by tools/mutation.py
// (thorough tier): each site is mutated in a scratch copy and the property's check must report it.
func cmdMutSites(args []string) int {
	fs := flag.NewFlagSet("mutsites", flag.ExitOnError)
	prop := fs.String("prop", "", "property id")
	repo := fs.String("repo", "/repo", "repository")
	verif := fs.String("verif", "/verif", "verif dir")
	fs.Parse(args)
	pkgs, err := contractPackages(*repo, *prop)
	if err != nil || len(pkgs) == 0 {
		return 2
	}
	P, err := LoadProgram(*repo, pkgs, filepath.Join(*verif, "contracts"))
	if err != nil {
		fmt.Fprintln(os.Stderr, err)
		return 2
	}
	InstantiateSchemas(P)
	swap := map[token.Token]token.Token{token.LSS: token.LEQ, token.LEQ: token.LSS, token.GTR: token.GEQ, token.GEQ: token.GTR,
		token.EQL: token.NEQ, token.NEQ: token.EQL, token.ADD: token.SUB, token.SUB: token.ADD, token.LAND: token.LOR, token.LOR: token.LAND}
	var keys []string
	for k := range P.CS.Funcs {
		keys = append(keys, k)
	}
	sort.Strings(keys)
	seen := map[string]bool{}
	for _, k := range keys {
		c := P.CS.Funcs[k]
		if c.Trusted || c.SchemaOf != "" || !hasProp(c.Props, *prop) {
			continue
		}
		fn := P.FindFunc(c.PkgPath, c.Key)
		if fn == nil || fn.Syntax() == nil {
			continue
		}
		ast.Inspect(fn.Syntax(), func(n ast.Node) bool {
			be, ok := n.(*ast.BinaryExpr)
			if !ok {
				return true
			}
			nw, ok := swap[be.Op]
			if !ok {
				return true
			}
			if be.Op == token.ADD {
				// string concatenation in messages is not worth a mutant
				if bl, isLit := be.X.(*ast.BasicLit); isLit && bl.Kind == token.STRING {
					return true
				}
				if bl, isLit := be.Y.(*ast.BasicLit); isLit && bl.Kind == token.STRING {
					return true
				}
			}
			pos := P.Fset.Position(be.OpPos)
			id := fmt.Sprintf("%s:%d", pos.Filename, pos.Offset)
			if seen[id] {
				return true
			}
			seen[id] = true
			fmt.Printf("%s\t%d\t%s\t%s\t%s\t%d\n", pos.Filename, pos.Offset, be.Op, nw, k, pos.Line)
			return true
		})
	}
	return 0
}

// cmdAppendSites lists every append call in the functions under (non-trusted) contract with the verdict of the
// ownership check that justifies modelling append as reallocation (development aid).
func cmdAppendSites(args []string) int {
	fs := flag.NewFlagSet("appendsites", flag.ExitOnError)
	repo := fs.String("repo", "/repo", "repository")
	verif := fs.String("verif", "/verif", "verif dir")
	fs.Parse(args)
	pkgs, err := contractPackages(*repo, "")
	if err != nil || len(pkgs) == 0 {
		return 2
	}
	P, err := LoadProgram(*repo, pkgs, filepath.Join(*verif, "contracts"))
	if err != nil {
		fmt.Fprintln(os.Stderr, err)
		return 2
	}
	InstantiateSchemas(P)
	var keys []string
	for k := range P.CS.Funcs {
		keys = append(keys, k)
	}
	sort.Strings(keys)
	seenFn := map[*ssa.Function]bool{}
	for _, k := range keys {
		c := P.CS.Funcs[k]
		if c.Trusted || c.SchemaOf != "" {
			continue
		}
		fn := P.FindFunc(c.PkgPath, c.Key)
		if fn == nil || seenFn[fn] {
			continue
		}
		seenFn[fn] = true
		for _, b := range fn.Blocks {
			for _, in := range b.Instrs {
				call, ok := in.(*ssa.Call)
				if !ok {
					continue
				}
				bi, isB := call.Call.Value.(*ssa.Builtin)
				if !isB || bi.Name() != "append" {
					continue
				}
				okOwn, why := appendOwnerOK(call)
				v := "ok"
				if !okOwn {
					v = "ALIAS?"
				}
				fmt.Printf("%-7s %s %s: %s\n", v, P.pos(call.Pos()), k, why)
			}
		}
	}
	return 0
}

// cmdParamNames prints, for every func contract, the file and line of its header and the current names of the
// function's parameters (receiver first), so that the headers can be given positional parameter lists.
func cmdParamNames(args []string) int {
	fs := flag.NewFlagSet("paramnames", flag.ExitOnError)
	repo := fs.String("repo", "/repo", "repository")
	verif := fs.String("verif", "/verif", "verif dir")
	fs.Parse(args)
	pkgs, err := contractPackages(*repo, "")
	if err != nil || len(pkgs) == 0 {
		return 2
	}
	P, err := LoadProgram(*repo, pkgs, filepath.Join(*verif, "contracts"))
	if err != nil {
		fmt.Fprintln(os.Stderr, err)
		return 2
	}
	for _, c := range P.CS.Funcs {
		for _, bc := range append([]*FuncContract{c}, c.Behaviors...) {
			fn := P.FindFunc(c.PkgPath, c.Key)
			if fn == nil || bc.SchemaOf != "" {
				continue
			}
			var names []string
			for _, p := range fn.Params {
				names = append(names, p.Name())
			}
			var free []string
			for _, fv := range fn.FreeVars {
				free = append(free, fv.Name())
			}
			fmt.Printf("%s\t%d\t%s\t%s\n", bc.File, bc.Line, strings.Join(names, ", "), strings.Join(free, ", "))
		}
	}
	return 0
}

// loadFactor: how many runnable processes per core the machine has right now (1-minute load average), between 1 and 4.
func loadFactor() float64 {
	b, err := os.ReadFile("/proc/loadavg")
	if err != nil {
		return 1
	}
	f := strings.Fields(string(b))
	if len(f) == 0 {
		return 1
	}
	load, err := strconv.ParseFloat(f[0], 64)
	if err != nil {
		return 1
	}
	k := load / float64(runtime.NumCPU())
	if k < 1 {
		return 1
	}
	if k > 4 {
		return 4
	}
	return k
}
