package main

// Checking one function against its contract; lemmas; obligation inventory.

import (
	"fmt"
	"go/constant"
	"go/types"
	"regexp"
	"sort"
	"strconv"
	"strings"

	"golang.org/x/tools/go/ssa"
)

type FuncReport struct {
	Func        string
	Key         string
	Obligations []*Obligation
	Assumptions []string
	Error       string // engine could not process the function (reported as failed obligation #engine)
	Trivial     int
	ex          *Exec
	fn          *ssa.Function
	final       *State
	results     []Val
	pre         *EvalCtx
}

// holdsOutside re-asks a failed obligation with the known-finding scenario excluded.
func (rep *FuncReport) holdsOutside(o *Obligation, scenario string, outDir string, timeout int) (ok bool, why string) {
	defer func() {
		if r := recover(); r != nil {
			if ep, isEP := r.(execPanic); isEP {
				ok, why = false, "scenario does not evaluate: "+ep.msg
				return
			}
			panic(r)
		}
	}()
	e, err := parseSpecExpr(scenario)
	if err != nil {
		return false, err.Error()
	}
	ex := rep.ex
	cl := &Clause{Text: scenario, Expr: e, File: "known_findings.txt"}
	ex.noOblige++
	t := ex.evalBool(rep.pre, cl)
	ex.noOblige--
	file := oblFile(outDir, o.Name+".outside-known")
	writeFile(file, ex.renderOpt(o, []*Term{ex.p.Not(t)}, false, false))
	r := Solve(file, timeout, false, false)
	if r.Status == "unsat" {
		return true, ""
	}
	return false, r.Status
}

type unusedCheck struct {
}

func hasProp(props []string, id string) bool {
	if id == "" {
		return true
	}
	for _, p := range props {
		if p == id {
			return true
		}
	}
	return false
}

// CheckFunc symbolically executes fn against contract c and returns its obligations.
func CheckFunc(P *Program, fn *ssa.Function, c *FuncContract) (rep *FuncReport) {
	return checkFunc(P, fn, c, false)
}

// SweepFunc: zero-annotation run of a function: only the bounds / arithmetic safety conditions are obligations; nil
// dereferences, callee preconditions and frames are assumed, loops are cut with the trivial invariant.
func SweepFunc(P *Program, fn *ssa.Function, c *FuncContract) (rep *FuncReport) {
	return checkFunc(P, fn, c, true)
}

func checkFunc(P *Program, fn *ssa.Function, c *FuncContract, sweep bool) (rep *FuncReport) {
	ex := NewExec(P)
	ex.sweep = sweep
	ex.top = fn
	ex.topC = c
	ex.curProps = c.Props
	rep = &FuncReport{Func: ex.fnName(fn), Key: c.Key, ex: ex, fn: fn}
	defer func() {
		if r := recover(); r != nil {
			if ep, ok := r.(execPanic); ok {
				rep.Error = ep.msg
			} else {
				panic(r)
			}
		}
		ex.applySplits(c, rep)
		rep.Obligations = ex.obls
		rep.Trivial = ex.oblCount["trivial"]
		for a := range ex.assumptions {
			rep.Assumptions = append(rep.Assumptions, a)
		}
		sort.Strings(rep.Assumptions)
	}()
	p := ex.p
	st := ex.emptyState()
	ex.heapTop0 = st.heapTop
	ex.facts = append(ex.facts, p.Gt(st.heapTop, p.Int(0)))
	// axioms
	ex.addAxioms(c.PkgPath)
	// parameters
	vars := map[string]tv{}
	for i, prm := range fn.Params {
		v := ex.symbolicInput(st, "in:"+prm.Name(), prm.Type())
		st.vals[prm] = v
		vars[prm.Name()] = tv{v, prm.Type()}
		// the contract's own (positional) name for this parameter, where the header gives one
		if len(c.Params) == len(fn.Params) && c.Params[i] != "" && c.Params[i] != "_" {
			vars[c.Params[i]] = tv{v, prm.Type()}
		}
		if i == 0 && fn.Signature.Recv() != nil {
			vars["self"] = tv{v, prm.Type()}
		}
	}
	for fi, fv := range fn.FreeVars {
		v := ex.symbolicInput(st, "free:"+fv.Name(), fv.Type())
		st.vals[fv] = v
		freeAlias := ""
		if len(c.FreeNames) == len(fn.FreeVars) && c.FreeNames[fi] != fv.Name() {
			freeAlias = c.FreeNames[fi]
		}
		// go/ssa captures a variable by value when it is never reassigned (then the free variable has the
		// variable's own type); otherwise the free variable is a pointer to the variable's cell.
		captured := false
		if par := fn.Parent(); par != nil {
			for _, pp := range par.Params {
				if pp.Name() == fv.Name() && types.Identical(pp.Type(), fv.Type()) {
					captured = true
				}
			}
		}
		if captured {
			vars[fv.Name()] = tv{v, fv.Type()}
			if freeAlias != "" {
				vars[freeAlias] = tv{v, fv.Type()}
			}
		} else {
			ex.facts = append(ex.facts, p.Gt(v, p.Int(0)))
			// captured by reference: the name denotes the variable's value at entry
			if pt, ok := fv.Type().Underlying().(*types.Pointer); ok {
				ex.noOblige++
				cur := ex.load(st, ex.asPtr(v, pt.Elem()), pt.Elem(), "")
				ex.noOblige--
				ex.facts = append(ex.facts, ex.tm.InRange(cur, pt.Elem(), 0))
				ex.pointerBound(st, cur, pt.Elem())
				vars[fv.Name()] = tv{cur, pt.Elem()}
				if freeAlias != "" {
					vars[freeAlias] = tv{cur, pt.Elem()}
				}
			}
		}
	}
	ex.old = st.fork()
	pre := &EvalCtx{ex: ex, st: st, old: ex.old, vars: vars, pkgPath: c.PkgPath}
	rep.pre = &EvalCtx{ex: ex, st: ex.old, old: ex.old, vars: vars, pkgPath: c.PkgPath}
	var reqs []*Term
	for _, r := range c.Requires {
		t := ex.evalAssume(pre, r)
		reqs = append(reqs, t)
		ex.facts = append(ex.facts, t)
	}
	// old state must see regions created while evaluating requires
	ex.old = st.fork()
	rep.pre.st, rep.pre.old = ex.old, ex.old
	// vacuity guard: the preconditions must be satisfiable
	{
		o := &Obligation{Name: ex.fnName(fn) + "#requires-sat", Kind: "requires-sat", Detail: "preconditions are satisfiable (cover)",
			Goal: p.False(), PC: p.True(), NFacts: len(ex.facts), Func: ex.fnName(fn), Props: c.Props}
		ex.obls = append(ex.obls, o)
	}
	// frame
	ex.frameOn = true
	for _, m := range c.Modifies {
		pre.clause = m
		ex.modSet = append(ex.modSet, pre.modTargets(m.Expr)...)
	}
	if fn.Blocks == nil {
		ex.fail("function has no body")
	}
	fr := &frame{fn: fn, loops: P.Loops(fn), fc: c, isTop: true}
	ex.inlineStack = []*ssa.Function{fn}
	ex.runBody(fr, st)
	// contract loops must exist
	for k := range c.Loops {
		if k >= len(fr.loops) {
			o := &Obligation{Name: fmt.Sprintf("%s#contract.target[loop %d]", ex.fnName(fn), k), Kind: "contract.target",
				Detail: "contract names a loop that does not exist", Goal: p.False(), PC: p.True(), NFacts: 0, Func: ex.fnName(fn), Props: c.Props}
			ex.obls = append(ex.obls, o)
		}
	}
	// contract site assertions must name a call site that exists (in the function itself, statically, or in a callee
	// executed in place): an assertion whose callee was renamed or whose ordinal no longer exists would otherwise
	// silently assert nothing
	for key := range c.Asserts {
		if ex.assertHits[key] > 0 || assertSiteExists(fn, key) {
			continue
		}
		o := &Obligation{Name: fmt.Sprintf("%s#contract.target[assert %s]", ex.fnName(fn), key), Kind: "contract.target",
			Detail: "contract asserts at a call site that does not exist: " + key, Goal: p.False(), PC: p.True(), NFacts: 0, Func: ex.fnName(fn), Props: c.Props}
		ex.obls = append(ex.obls, o)
	}
	// `threads tx` must name a parameter or a local variable of the function: otherwise it would silently state nothing
	if c.Threads != nil {
		named := false
		for i, prm := range fn.Params {
			if prm.Name() == c.ThreadsParam || (len(c.Params) == len(fn.Params) && c.Params[i] == c.ThreadsParam) {
				named = true
			}
		}
		if !named {
			dbg := debugNames(fn)
			named = len(dbg[c.ThreadsParam]) > 0 || len(dbg[c.ThreadsParam+"&"]) > 0
		}
		if !named {
			o := &Obligation{Name: fmt.Sprintf("%s#contract.target[threads %s]", ex.fnName(fn), c.ThreadsParam), Kind: "contract.target",
				Detail: "contract names a store handle that is neither a parameter nor a local variable: " + c.ThreadsParam, Goal: p.False(), PC: p.True(), NFacts: 0, Func: ex.fnName(fn), Props: c.Props}
			ex.obls = append(ex.obls, o)
		}
	}
	ex.addFieldInputs(fn)
	if len(fr.rets) == 0 {
		return
	}
	// ensures on each return (merged)
	var sts []*State
	for _, r := range fr.rets {
		sts = append(sts, r.st)
	}
	nres := fn.Signature.Results().Len()
	results := make([]Val, nres)
	for i := 0; i < nres; i++ {
		cur := fr.rets[0].vals[i]
		for _, r := range fr.rets[1:] {
			m, err := ex.mergeVals(r.st.pc, r.vals[i], cur)
			if err != nil {
				ex.fail("merging results: %v", err)
			}
			cur = m
		}
		results[i] = cur
	}
	final, err := ex.merge(sts)
	if err != nil {
		ex.fail("merging return states: %v", err)
	}
	rep.final = final
	rep.results = results
	post := &EvalCtx{ex: ex, st: final, old: ex.old, vars: map[string]tv{}, pkgPath: c.PkgPath, fr: fr}
	for k, v := range vars {
		post.vars[k] = v
	}
	var res Val
	switch nres {
	case 0:
		res = TupleV{}
	case 1:
		res = results[0]
	default:
		res = TupleV(results)
	}
	bindResults(post.vars, fn.Signature, res)
	ex.frameOn = false
	ex.applyGhostUpdates(c, post)
	ex.obls = append(ex.obls, &Obligation{Name: ex.fnName(fn) + "#reach[return]", Kind: "reach", Detail: "a return is reachable under all assumed facts (vacuity guard)",
		Goal: p.False(), PC: final.pc, NFacts: len(ex.facts), Func: ex.fnName(fn), Props: c.Props})
	partGhostDone := map[int]bool{}
	for i, e := range c.Ensures {
		g := ex.evalBool(post, e)
		label := e.Label
		if label == "" {
			label = fmt.Sprintf("%d", i)
		}
		ex.curProps = e.Props
		if len(e.Props) == 0 {
			ex.curProps = c.Props
		}
		o := ex.obligeNamed(final, "ensures", label, e.Text, g, fmt.Sprintf("%s:%d", relPath(P, e.File), e.Line))
		if o != nil {
			o.Clause = e
			// one query per return statement: the same obligation, without the ite-merging of the return states
			if len(fr.rets) >= 2 && len(fr.rets) <= 80 {
				for ri, r := range fr.rets {
					if r.st.pc.IsFalse() {
						continue
					}
					pc := &EvalCtx{ex: ex, st: r.st, old: ex.old, vars: map[string]tv{}, pkgPath: c.PkgPath, fr: fr}
					for k, v := range vars {
						pc.vars[k] = v
					}
					var rv Val
					switch nres {
					case 0:
						rv = TupleV{}
					case 1:
						rv = r.vals[0]
					default:
						rv = TupleV(r.vals)
					}
					bindResults(pc.vars, fn.Signature, rv)
					if !partGhostDone[ri] {
						partGhostDone[ri] = true
						ex.applyGhostUpdates(c, pc)
					}
					gr := ex.evalBool(pc, e)
					o.Parts = append(o.Parts, oblPart{PC: r.st.pc, Goal: gr, What: fmt.Sprintf("return #%d", ri)})
				}
				o.NFacts = len(ex.facts)
			}
		}
	}
	return
}

func relPath(P *Program, f string) string {
	return strings.TrimPrefix(f, P.RepoDir+"/")
}

func (ex *Exec) obligeNamed(st *State, kind, label, detail string, goal *Term, pos string) *Obligation {
	if ex.noOblige > 0 {
		return nil
	}
	name := fmt.Sprintf("%s#%s[%s]", ex.fnName(ex.top), kind, label)
	ex.oblCount[name]++
	if n := ex.oblCount[name]; n > 1 {
		name = fmt.Sprintf("%s~%d", name, n)
	}
	if st.pc.IsFalse() {
		goal = ex.p.True()
	}
	o := &Obligation{Name: name, Kind: kind, Detail: detail, Goal: goal, PC: st.pc, NFacts: len(ex.facts), Pos: pos,
		Func: ex.fnName(ex.top), Props: ex.curProps}
	ex.obls = append(ex.obls, o)
	return o
}

// symbolicInput creates an unconstrained, well-typed input value.
func (ex *Exec) symbolicInput(st *State, name string, t types.Type) *Term {
	if _, isSlice := t.Underlying().(*types.Slice); isSlice {
		// a slice parameter is modelled as starting at offset 0 of its backing array (aliasing between overlapping
		// input slices is not modelled); indexing it then needs no offset arithmetic
		p := ex.p
		v := p.Mk(ex.tm.SliceS, p.Const(name+".ref", IntSort), p.Int(0), p.Const(name+".len", IntSort), p.Const(name+".cap", IntSort))
		ex.facts = append(ex.facts, ex.tm.InRange(v, t, 0))
		ex.pointerBound(st, v, t)
		ex.inputs[name+".ref"] = p.Acc(v, 0)
		ex.inputs[name+".len"] = p.Acc(v, 2)
		ex.assumptions["input slices are modelled at offset 0 of their backing array (overlapping input slices are not modelled)"] = true
		return v
	}
	v := ex.p.Const(name, ex.tm.SortOf(t))
	ex.facts = append(ex.facts, ex.tm.InRange(v, t, 0))
	ex.pointerBound(st, v, t)
	ex.inputs[name] = v
	return v
}

func (ex *Exec) addAxioms(pkgPath string) {
	for _, a := range ex.P.CS.Axioms {
		if a.Only != "" && (ex.top == nil || !strings.Contains(ex.fnName(ex.top), a.Only)) {
			continue
		}
		vars := map[string]tv{}
		var bound []*Term
		for _, sp := range a.Params {
			bv := ex.p.BoundVar(sp.Name, ex.specSort(sp.Type, pkgPath))
			bound = append(bound, bv)
			vars[sp.Name] = tv{bv, ex.specGoType(sp.Type, pkgPath)}
		}
		apkg := pkgPath
		if a.PkgPath != "" {
			apkg = a.PkgPath
		}
		ctx := &EvalCtx{ex: ex, st: ex.emptyState(), vars: vars, pkgPath: apkg, clause: a.Body}
		func() {
			defer func() {
				if r := recover(); r != nil {
					if _, ok := r.(execPanic); !ok {
						panic(r)
					}
					// axioms that mention types of other packages are skipped here
				}
			}()
			body := ctx.asTerm(ctx.eval(a.Body.Expr))
			var pats [][]*Term
			if len(a.Triggers) > 0 {
				var ps []*Term
				for _, te := range a.Triggers {
					ps = append(ps, ctx.asTerm(ctx.eval(te)))
				}
				pats = append(pats, ps)
			}
			ex.facts = append(ex.facts, ex.p.Forall(bound, body, pats...))
			ex.assumptions["axiom "+a.Name+": "+a.Body.Text] = true
		}()
	}
}

// CheckLemma: forall params. requires ==> ensures, as one obligation per ensures clause.
func CheckLemma(P *Program, l *Lemma, pkgPath string) *FuncReport {
	ex := NewExec(P)
	rep := &FuncReport{Func: "lemma." + l.Name, ex: ex}
	defer func() {
		if r := recover(); r != nil {
			if ep, ok := r.(execPanic); ok {
				rep.Error = ep.msg
			} else {
				panic(r)
			}
		}
		rep.Obligations = ex.obls
		for a := range ex.assumptions {
			rep.Assumptions = append(rep.Assumptions, a)
		}
		sort.Strings(rep.Assumptions)
	}()
	st := ex.emptyState()
	ex.addAxioms(pkgPath)
	vars := map[string]tv{}
	for _, sp := range l.Params {
		v := ex.p.Const("lem:"+sp.Name, ex.specSort(sp.Type, pkgPath))
		gt := ex.specGoType(sp.Type, pkgPath)
		if gt != nil {
			ex.facts = append(ex.facts, ex.tm.InRange(v, gt, 0))
		}
		vars[sp.Name] = tv{v, gt}
		ex.inputs[sp.Name] = v
	}
	ctx := &EvalCtx{ex: ex, st: st, vars: vars, pkgPath: pkgPath}
	for _, r := range l.Requires {
		ex.facts = append(ex.facts, ex.evalBool(ctx, r))
	}
	ex.obls = append(ex.obls, &Obligation{Name: "lemma." + l.Name + "#requires-sat", Kind: "requires-sat", Goal: ex.p.False(),
		PC: ex.p.True(), NFacts: len(ex.facts), Func: "lemma." + l.Name, Props: l.Props, Detail: "lemma hypotheses are satisfiable"})
	for i, e := range l.Ensures {
		label := e.Label
		if label == "" {
			label = fmt.Sprintf("%d", i)
		}
		g := ex.evalBool(ctx, e)
		ex.obls = append(ex.obls, &Obligation{Name: fmt.Sprintf("lemma.%s#ensures[%s]", l.Name, label), Kind: "lemma", Detail: e.Text,
			Goal: g, PC: ex.p.True(), NFacts: len(ex.facts), Func: "lemma." + l.Name, Props: l.Props, Clause: e,
			Pos: fmt.Sprintf("%s:%d", relPath(P, e.File), e.Line)})
	}
	return rep
}

// addFieldInputs: for pointer parameters, the fields of the pointee in the pre-state become named inputs
// (so that counterexamples show them), recursively through pointer fields to a small depth.
func (ex *Exec) addFieldInputs(fn *ssa.Function) {
	var rec func(key string, base *Term, t types.Type, depth int)
	rec = func(key string, base *Term, t types.Type, depth int) {
		if _, isIface := t.Underlying().(*types.Interface); isIface && depth <= 2 {
			// an interface value whose dynamic type a clause names (typeIs): its fields are inputs too, so that a
			// counterexample can be rebuilt with an object of that type
			if dt, ok := ex.dynHints[base]; ok {
				if _, isPtr := dt.Underlying().(*types.Pointer); isPtr {
					ex.dynOf[key] = dt
					rec(key, base, dt, depth)
				}
			}
			return
		}
		pt, ok := t.Underlying().(*types.Pointer)
		if !ok || depth > 2 {
			return
		}
		if isNamed(pt.Elem(), "math/big", "Int") {
			if _, known := ex.regionSorts["gf:bigval"]; known {
				ex.inputs[key+"#bigval"] = ex.p.Select(ex.regionAt("gf:bigval", 0), base)
			}
			return
		}
		if isHashType(pt.Elem()) || isAddrType(pt.Elem()) {
			name := "*" + shortTypeName(pt.Elem())
			if _, known := ex.regionSorts[name]; known {
				ex.inputs[key+"#deref"] = ex.p.Select(ex.regionAt(name, 0), base)
			}
			return
		}
		sT, ok := derefStruct(pt.Elem())
		if !ok {
			return
		}
		for i := 0; i < sT.NumFields(); i++ {
			name := fieldRegion(pt.Elem(), sT, i)
			if _, known := ex.regionSorts[name]; !known {
				continue
			}
			v := ex.p.Select(ex.regionAt(name, 0), base)
			k := key + "." + sT.Field(i).Name()
			ex.inputs[k] = v
			rec(k, v, sT.Field(i).Type(), depth+1)
		}
	}
	for _, prm := range fn.Params {
		base := ex.inputs["in:"+prm.Name()]
		if base == nil {
			continue
		}
		rec("in:"+prm.Name(), base, prm.Type(), 0)
	}
}

// InstantiateSchemas turns obligation schemas into per-function contracts, enumerating the functions from go/types.
func InstantiateSchemas(P *Program) []string {
	var errs []string
	for _, sc := range P.CS.Schemas {
		sp := P.ByPath[sc.PkgPath]
		if sp == nil {
			continue
		}
		if sc.Kind != "exported-methods" {
			errs = append(errs, fmt.Sprintf("%s:%d: unknown schema kind %s", sc.File, sc.Line, sc.Kind))
			continue
		}
		tname := strings.TrimPrefix(sc.Type, "*")
		tn, ok := sp.Pkg.Scope().Lookup(tname).(*types.TypeName)
		if !ok {
			errs = append(errs, fmt.Sprintf("%s:%d: schema type %s not found", sc.File, sc.Line, sc.Type))
			continue
		}
		var recv types.Type = tn.Type()
		if strings.HasPrefix(sc.Type, "*") {
			recv = types.NewPointer(recv)
		}
		ms := P.SSA.MethodSets.MethodSet(recv)
		n := 0
		for i := 0; i < ms.Len(); i++ {
			sel := ms.At(i)
			if !sel.Obj().Exported() {
				continue
			}
			skip := false
			for _, e := range sc.Except {
				if e == sel.Obj().Name() {
					skip = true
				}
			}
			if skip {
				continue
			}
			fn := P.SSA.MethodValue(sel)
			if fn == nil || fn.Synthetic != "" {
				continue // promoted through embedding: covered where it is declared
			}
			key := fn.RelString(sp.Pkg)
			full := sc.PkgPath + "." + key
			explicit := P.CS.Funcs[full] // an explicit contract keeps its own clauses; the schema instance becomes a further behaviour of it
			fc := &FuncContract{Key: key, PkgPath: sc.PkgPath, File: sc.File, Line: sc.Line, Props: sc.Props, Loops: map[int]*LoopSpec{},
				Asserts: map[string][]*Clause{}, Requires: sc.Requires, NoCalls: sc.NoCalls, Allow: sc.Allow, HasMod: false,
				SchemaOf: sc.Kind + " " + sc.Type}
			res := fn.Signature.Results()
			for r := 0; r < res.Len(); r++ {
				name := fmt.Sprintf("result%d", r)
				var txt, label string
				if types.Identical(res.At(r).Type(), types.Universe.Lookup("error").Type()) {
					if sc.ErrExpr == "" {
						continue
					}
					txt, label = "isErr("+name+", "+sc.ErrExpr+")", "explicit-error"
				} else {
					if !sc.Zero {
						continue
					}
					txt, label = "isZero("+name+")", fmt.Sprintf("no-data[%d]", r)
				}
				e, err := parseSpecExpr(txt)
				if err != nil {
					errs = append(errs, err.Error())
					continue
				}
				fc.Ensures = append(fc.Ensures, &Clause{Label: label, Text: txt, Expr: e, File: sc.File, Line: sc.Line, Props: sc.Props})
			}
			if explicit != nil {
				fc.Behavior = "schema"
				explicit.Behaviors = append(explicit.Behaviors, fc)
			} else {
				P.CS.Funcs[full] = fc
			}
			n++
		}
		if n == 0 {
			errs = append(errs, fmt.Sprintf("%s:%d: schema over %s enumerated no functions", sc.File, sc.Line, sc.Type))
		}
	}
	return errs
}

func normSQL(s string) string {
	s = strings.Join(strings.Fields(s), " ")
	s = strings.TrimSuffix(strings.TrimSpace(s), ";")
	return strings.TrimSpace(s)
}

var sqlShape = regexp.MustCompile(`(?is)^\s*(select\s.*\sfrom\s|insert\s+(or\s+\w+\s+)?into\s|delete\s+from\s|update\s+\S+\s+set\s|replace\s+into\s|with\s+\w+\s+as\s)`)

// looksLikeSQL: a string constant that has the shape of a data statement (log and error messages that merely begin
// with "insert ..." or "delete ..." are not statements).
func looksLikeSQL(s string) bool {
	return sqlShape.MatchString(s)
}

// CheckCallers: `calledonlyby f g`: every static call of fn in the loaded program sits in a function whose name contains
// one of the listed names (a gate proved at the listed callers covers every use of the function).
// labelledRequires: the labels of the preconditions written as requires[label] (the ones that carry part of a property)
func labelledRequires(c *FuncContract) []string {
	var out []string
	for _, r := range c.Requires {
		if r.Label != "" {
			out = append(out, r.Label)
		}
	}
	return out
}

func CheckCallers(P *Program, fn *ssa.Function, c *FuncContract) *FuncReport {
	ex := NewExec(P)
	ex.top = fn
	rep := &FuncReport{Func: ex.fnName(fn) + " (callers)", Key: c.Key, ex: ex}
	n := 0
	var scan func(f *ssa.Function)
	scan = func(f *ssa.Function) {
		for _, b := range f.Blocks {
			for _, in := range b.Instrs {
				var cc *ssa.CallCommon
				switch x := in.(type) {
				case *ssa.Call:
					cc = &x.Call
				case *ssa.Go:
					cc = &x.Call
				case *ssa.Defer:
					cc = &x.Call
				}
				uses := cc != nil && cc.StaticCallee() == fn
				if !uses {
					// the function used as a value (method value, closure binding) escapes the gate as well
					for _, op := range in.Operands(nil) {
						if *op == ssa.Value(fn) && (cc == nil || cc.Value != *op) {
							uses = true
						}
					}
				}
				if !uses {
					continue
				}
				ok := false
				name := ex.fnName(f)
				for _, a := range c.OnlyCallers {
					if strings.Contains(name, a) {
						ok = true
					}
				}
				if len(c.OnlyCallers) > 0 {
					o := &Obligation{Name: fmt.Sprintf("%s#callers[%d]", ex.fnName(fn), n), Kind: "sql.text",
						Detail: "the function is used only by " + strings.Join(c.OnlyCallers, ", ") + " (found in " + name + ")",
						Goal:   ex.p.Bool(ok), PC: ex.p.True(), Func: ex.fnName(fn), Props: c.Props, Pos: P.pos(in.Pos())}
					ex.obls = append(ex.obls, o)
					n++
				}
				if labels := labelledRequires(c); len(labels) > 0 {
					// a precondition that carries part of a property is checked where the caller is verified: a use from a
					// function without a (proved) contract would leave it unchecked
					cc2 := P.ContractFor(f)
					// (used as a value, cc == nil, the eventual caller is unknown)
					verified := cc != nil && cc2 != nil && !cc2.Trusted
					o := &Obligation{Name: fmt.Sprintf("%s#guarded-callers[%d]", ex.fnName(fn), n), Kind: "sql.text",
						Detail: "the precondition [" + strings.Join(labels, ", ") + "] is checked at every use: the using function must be under a proved contract (found in " + name + ")",
						Goal:   ex.p.Bool(verified), PC: ex.p.True(), Func: ex.fnName(fn), Props: c.Props, Pos: P.pos(in.Pos())}
					ex.obls = append(ex.obls, o)
					n++
				}
			}
		}
		for _, a := range f.AnonFuncs {
			scan(a)
		}
	}
	for _, sp := range P.ByPath {
		if sp == nil {
			continue
		}
		for _, m := range sp.Members {
			switch x := m.(type) {
			case *ssa.Function:
				scan(x)
			case *ssa.Type:
				for _, t := range []types.Type{x.Type(), types.NewPointer(x.Type())} {
					ms := P.SSA.MethodSets.MethodSet(t)
					for i := 0; i < ms.Len(); i++ {
						if mf := P.SSA.MethodValue(ms.At(i)); mf != nil && mf.Synthetic == "" && mf.Pkg == sp {
							if _, ptr := t.(*types.Pointer); ptr == (mf.Signature.Recv() != nil && isPtrRecv(mf)) {
								scan(mf)
							}
						}
					}
				}
			}
		}
	}
	rep.Obligations = ex.obls
	return rep
}

func isPtrRecv(f *ssa.Function) bool {
	if f.Signature.Recv() == nil {
		return false
	}
	_, ok := f.Signature.Recv().Type().(*types.Pointer)
	return ok
}

// CheckSQLPins: the SQL statements whose semantics a trusted data-access contract assumes must be exactly the
// statements in the function's current source (string constants of its SSA, closures included).
func CheckSQLPins(P *Program, fn *ssa.Function, c *FuncContract) *FuncReport {
	ex := NewExec(P)
	ex.top = fn
	rep := &FuncReport{Func: ex.fnName(fn), Key: c.Key, ex: ex}
	found := map[string]bool{}
	allConsts := map[string]bool{}
	var scan func(f *ssa.Function)
	scan = func(f *ssa.Function) {
		for _, b := range f.Blocks {
			for _, in := range b.Instrs {
				for _, op := range in.Operands(nil) {
					if k, ok := (*op).(*ssa.Const); ok && k.Value != nil && k.Value.Kind() == constant.String {
						s := constant.StringVal(k.Value)
						allConsts[s] = true
						if looksLikeSQL(s) {
							found[normSQL(s)] = true
						}
					}
				}
			}
		}
		for _, a := range f.AnonFuncs {
			scan(a)
		}
	}
	scan(fn)
	for i, t := range c.ConstTexts {
		o := &Obligation{Name: fmt.Sprintf("%s#const.text[%d]", ex.fnName(fn), i), Kind: "sql.text",
			Detail: "the configuration string the assumed semantics rest on occurs verbatim in the source: " + t,
			Goal:   ex.p.Bool(allConsts[t]), PC: ex.p.True(), Func: ex.fnName(fn), Props: c.Props, Pos: P.pos(fn.Pos())}
		ex.obls = append(ex.obls, o)
	}
	pinned := map[string]bool{}
	for i, t := range c.SQLTexts {
		pinned[normSQL(t)] = true
		goal := ex.p.Bool(found[normSQL(t)])
		o := &Obligation{Name: fmt.Sprintf("%s#sql.text[%d]", ex.fnName(fn), i), Kind: "sql.text",
			Detail: "the statement the assumed contract was written for is the statement in the source: " + normSQL(t),
			Goal:   goal, PC: ex.p.True(), Func: ex.fnName(fn), Props: c.Props, Pos: P.pos(fn.Pos())}
		ex.obls = append(ex.obls, o)
	}
	i := 0
	var extra []string
	for f := range found {
		if !pinned[f] {
			extra = append(extra, f)
		}
	}
	sort.Strings(extra)
	for _, f := range extra {
		o := &Obligation{Name: fmt.Sprintf("%s#sql.unpinned[%d]", ex.fnName(fn), i), Kind: "sql.text",
			Detail: "a statement in the source is not covered by the assumed contract: " + f,
			Goal:   ex.p.False(), PC: ex.p.True(), Func: ex.fnName(fn), Props: c.Props, Pos: P.pos(fn.Pos())}
		ex.obls = append(ex.obls, o)
		i++
	}
	rep.Obligations = ex.obls
	rep.Assumptions = []string{"SQL semantics of the pinned statements of " + ex.fnName(fn) + " are as its assumed contract states (A5)"}
	return rep
}

// applyGhostUpdates runs the contract's ghost code on a return state (ctx.st is modified in place).
func (ex *Exec) applyGhostUpdates(c *FuncContract, ctx *EvalCtx) {
	p := ex.p
	for _, gu := range c.GhostUpd {
		ctx.clause = gu.Loc
		targets := ctx.modTargets(gu.Loc.Expr)
		if len(targets) != 1 {
			ex.fail("ghost update: location must denote exactly one ghost cell")
		}
		t := targets[0]
		isGhostVar := strings.HasPrefix(t.region, "ghost:")
		if !isGhostVar && !strings.HasPrefix(t.region, "gf:") {
			ex.fail("ghost update: %s is not ghost state", gu.Loc.Text)
		}
		write := func(v *Term) {
			if isGhostVar {
				ctx.st.ghost[strings.TrimPrefix(t.region, "ghost:")] = v
				return
			}
			r := ex.getRegion(ctx.st, t.region, ex.regionSorts[t.region])
			ctx.st.heap[t.region] = p.Store(r, t.ref, v)
		}
		if !gu.Choose {
			write(ex.evalTerm(ctx, gu.Expr))
			continue
		}
		var s *Sort
		if isGhostVar {
			s = ex.ghostVar(ctx.st, strings.TrimPrefix(t.region, "ghost:")).Sort
		} else {
			s = ex.regionSorts[t.region].Elem
		}
		write(p.Fresh("chosen:"+t.region, s))
		ex.assume(ctx.st, ex.evalBool(ctx, gu.Expr))
		ex.assumptions["ghost choose in "+c.Key+": a value satisfying '"+gu.Expr.Text+"' exists"] = true
	}
}

// applySplits multiplies the queries of every proof obligation by the contract's case splits.
func (ex *Exec) applySplits(c *FuncContract, rep *FuncReport) {
	if len(c.Splits) == 0 || rep.pre == nil {
		return
	}
	defer func() {
		if r := recover(); r != nil {
			if ep, ok := r.(execPanic); ok {
				rep.Error = "split clause: " + ep.msg
				return
			}
			panic(r)
		}
	}()
	p := ex.p
	for _, sp := range c.Splits {
		ex.noOblige++
		t := ex.evalTerm(rep.pre, sp.Expr)
		ex.noOblige--
		var cases []*Term
		var names []string
		for k := sp.Lo; k <= sp.Hi; k++ {
			cases = append(cases, p.Eq(t, p.Int(int64(k))))
			names = append(names, fmt.Sprintf("%s == %d", sp.Expr.Text, k))
		}
		cases = append(cases, p.Or(p.Lt(t, p.Int(int64(sp.Lo))), p.Gt(t, p.Int(int64(sp.Hi)))))
		names = append(names, fmt.Sprintf("%s outside %d..%d", sp.Expr.Text, sp.Lo, sp.Hi))
		for _, o := range ex.obls {
			if o.Kind == "requires-sat" || o.Kind == "reach" {
				continue
			}
			base := o.Parts
			if len(base) == 0 {
				base = []oblPart{{PC: o.PC, Goal: o.Goal, What: "all paths"}}
			}
			var np []oblPart
			for _, b := range base {
				for i, cs := range cases {
					np = append(np, oblPart{PC: p.And(b.PC, cs), Goal: b.Goal, What: b.What + ", " + names[i]})
				}
			}
			o.Parts = np
		}
	}
}

// assertSiteExists: does fn contain a call (or go statement) matching the key "call:<name>[:k]" / "go:<name>[:k]"?
func assertSiteExists(fn *ssa.Function, key string) bool {
	parts := strings.Split(key, ":")
	if len(parts) < 2 {
		return true
	}
	kind, name, want := parts[0], parts[1], -1
	if len(parts) >= 3 {
		if k, err := strconv.Atoi(parts[2]); err == nil {
			want = k
		}
	}
	n := 0
	for _, b := range fn.Blocks {
		for _, in := range b.Instrs {
			var common *ssa.CallCommon
			switch c := in.(type) {
			case *ssa.Call:
				if kind == "call" {
					common = &c.Call
				}
			case *ssa.Go:
				if kind == "go" {
					common = &c.Call
				}
			case *ssa.Defer:
				if kind == "call" {
					common = &c.Call
				}
			}
			if common == nil {
				continue
			}
			cn := ""
			if common.IsInvoke() {
				cn = common.Method.Name()
			} else if f := common.StaticCallee(); f != nil {
				cn = siteCalleeName(f)
			} else if _, isB := common.Value.(*ssa.Builtin); !isB {
				cn = "dyn"
			}
			if cn == name {
				n++
			}
		}
	}
	if want < 0 {
		return n > 0
	}
	return n > want
}
