#!/bin/bash
# tools/selftest.sh : must-fail corpus. Applies every seeded change (seeded/<id>/patch.diff) to a scratch copy of /repo HEAD, runs the quick
# check of its property and compares with the expected verdict in seeded/EXPECTED (caught / missed). Run after every
# engine or contract change: a seed that used to be caught and now passes means a vacuity hole or a lost clause.
cd /verif
# the run works on one fixed revision of /repo and a private copy of the checker, so that work may go on meanwhile
export SEED_REV=$(git -C /repo rev-parse HEAD)
export GOVC=/var/tmp/govc_selftest_$$
cp bin/govc $GOVC
trap 'rm -f $GOVC' EXIT

fail=0
for dir in seeded seeded2 seeded3 seeded4 seeded5 seeded6 seeded7 seeded8 seeded9 seeded10 seeded11 seeded12 seeded13; do
  [ -f $dir/EXPECTED ] || continue
  while read -r id want; do
    [ -z "$id" ] && continue
    out=$(tools/seedtest.sh $id $dir/$id/patch.diff 2>&1)
    n=$(echo "$out" | grep -c '^VIOLATION')
    got=missed; [ "$n" -gt 0 ] && got=caught
    status=ok; [ "$got" != "$want" ] && { status=MISMATCH; fail=1; }
    echo "$dir/$id expected=$want got=$got ($n violation lines) $status"
  done < $dir/EXPECTED
done
# canaries: the repaired defects, re-introduced (reverse of each fix: commit), must be reported again
while read -r prop patch want; do
  [ -z "$prop" ] && continue
  out=$(tools/seedtest.sh $prop $patch 2>&1)
  n=$(echo "$out" | grep -c '^VIOLATION')
  got=missed; [ "$n" -gt 0 ] && got=caught
  status=ok; [ "$got" != "$want" ] && { status=MISMATCH; fail=1; }
  echo "$patch ($prop) expected=$want got=$got ($n violation lines) $status"
done < canaries/LIST
# the unchanged tree must be quiet
exit $fail
