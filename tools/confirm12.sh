#!/bin/bash
# tools/confirm12.sh : re-runs the demonstration of every batch-12 seed on the seeding agent's worktree (/var/tmp/seed12_<id>)
C=/verif/tools/confirm_seed.sh
run() { echo "#### $1"; $C /var/tmp/seed12_$1 "$2" "$3" $4 2>&1 | grep -E "^==|^ok|^FAIL|^---|CONFIRM" | cut -c1-200; }
run C08 'TestSeedC08' './tree/' './tree/...'
run C09 'TestSeedC09' './aggsender/query/' './aggsender/query/... ./aggsender/flows/...'
run C17 'TestSeedC17' './aggsender/types/' './aggsender/types/... ./aggsender/flows/...'
run C18 'TestSeedC18' './aggsender/' './aggsender/'
run C19 'TestSeedC19' './bridgesync/' './bridgesync/... ./agglayer/types/...'
run C20 'TestSeedC20' './bridgesync/' './bridgesync/...'
run C01 'TestSeedC01' './bridgesync/' './tree/... ./bridgesync/...'
run C11 'TestSeedC11' './l1infotreesync/' './l1infotreesync/...'
