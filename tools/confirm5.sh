#!/bin/bash
# tools/confirm5.sh : re-runs the demonstration of every batch-5 seed on the seeding agent's worktree (/var/tmp/seed5_<id>)
C=/verif/tools/confirm_seed.sh
run() { echo "#### $1"; $C /var/tmp/seed5_$1 "$2" "$3" $4 2>&1 | grep -E "^==|^ok|^FAIL|^---|CONFIRM" | cut -c1-200; }
run C01 'TestC01Seed' './bridgesync/' './tree/...'
run C04 'TestSeedC04' './bridgesync/' './tree/...'
run C08 'TestSeedC08' './tree/' './tree/...'
run C09 'TestSeedC09' './aggsender/flows/' './aggsender/flows/...'
run C10 'TestSeedC10' './agglayer/types/' './agglayer/...'
run C15 'TestC15' './aggoracle/' './aggoracle/chaingersender/...'
run C17 'TestSeedC17' './aggsender/flows/' './aggsender/types/... ./aggsender/flows/...'
run C18 'TestC18' './aggsender/' './aggsender/types/...'
run C19 'TestSeedC19' './agglayer/grpc/ ./aggsender/aggchainproofclient/' './agglayer/...'
run C20 'TestSeedC20' './bridgesync/' './bridgeservice/...'
