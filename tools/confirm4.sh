#!/bin/bash
# tools/confirm4.sh : re-runs the demonstration of every batch-4 seed on the seeding agent's worktree
# (/var/tmp/seed4_<id>): demo passes without the patch, the tree builds with it, the touched packages' existing tests
# pass with it (docker / known-flaky tests skipped), demo fails with it.
C=/verif/tools/confirm_seed.sh
run() { echo "#### $1"; $C /var/tmp/seed4_$1 "$2" "$3" $4 2>&1 | grep -E "^==|^ok|^FAIL|^---|CONFIRM" | cut -c1-200; }
run C02 'TestC02SeedDemo' './aggsender/ ./aggsender/flows/' './aggsender/types/... ./aggsender/flows/...'
run C03 'TestSeedC03' './aggsender/flows/' './aggsender/flows/...'
run C05 'TestC05Demo' './sync/' './sync/...'
run C06 'TestC06' './sync/' './reorgdetector/... ./sync/...'
run C07 'TestSeedC07' './bridgesync/ ./l1infotreesync/' './tree/...'
run C11 'TestSeedC11' './l1infotreesync/' './tree/...'
run C12 'TestC12' './l1infotreesync/' './bridgeservice/...'
run C13 'TestSeedC13' './aggsender/flows/' './aggsender/statuschecker/...'
run C14 'TestSeedC14' './bridgesync/' './bridgeservice/...'
run C16 'TestSeedC16' './lastgersync/' './sync/...'
