#!/bin/bash
# tools/evcheck.sh : refuse stale or failing evidence before a commit: every evidence file must record a clean run
# (violations 0, every obligation discharged) and validate against the schema.
cd /verif && python3-vt - <<'PY'
import json,glob,sys,jsonschema
sch=json.load(open('/root/.vp/EVIDENCE.schema.json')); bad=0
for f in sorted(glob.glob('evidence/C*.json')):
    e=json.load(open(f)); c=e['coverage']
    try: jsonschema.validate(e,sch)
    except Exception as x: print(f,'SCHEMA',str(x)[:200]); bad=1
    if e['violations']!=0 or (e.get('level')=='proof' and c['obligations']!=c['discharged']):
        print(f,'NOT CLEAN',e['violations'],c['obligations'],c['discharged']); bad=1
sys.exit(bad)
PY
