#!/bin/bash
# tools/harmless.sh : must-stay-quiet corpus. Each harmless/<name>/patch.diff is a behaviour-preserving edit of a function
# under contract (a log line, an error text, a renamed local, reordered independent initialisers, an equivalent
# condition, a temporary); the quick check of the property in harmless/<name>/prop must stay free of VIOLATION lines.
# A line that is not "quiet" is a false alarm of the machinery (brittle contract or engine limit) and needs work.
cd /verif
fail=0
for d in harmless/*/; do
  n=$(basename $d); p=$(cat $d/prop)
  out=$(tools/seedtest.sh $p $d/patch.diff 2>&1)
  v=$(echo "$out" | grep -c '^VIOLATION')
  if echo "$out" | grep -q "PATCH DOES NOT APPLY"; then echo "$n ($p): patch does not apply (stale)"; continue; fi
  if [ "$v" -gt 0 ]; then echo "$n ($p): ALARM ($v violation lines)"; echo "$out" | grep '^FAILED' | head -3 | cut -c1-200; fail=1; else echo "$n ($p): quiet"; fi
done
exit $fail
