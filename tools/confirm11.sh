#!/bin/bash
# tools/confirm11.sh : re-runs the demonstration of every batch-11 seed on the seeding agent's worktree (/var/tmp/seed11_<id>)
C=/verif/tools/confirm_seed.sh
run() { echo "#### $1"; $C /var/tmp/seed11_$1 "$2" "$3" $4 2>&1 | grep -E "^==|^ok|^FAIL|^---|CONFIRM" | cut -c1-200; }
run C12 'TestSeedC12' './bridgeservice/' './bridgeservice/...'
run C14 'TestSeedC14' './l1infotreesync/' './sync/...'
run C06 'TestSeedC06' './sync/' './sync/...'
[ -f /var/tmp/seed11_C04/_seed/NOTES.md ] && run C04 'TestSeedC04' "${C04PKG:-./bridgesync/}" './tree/...'
