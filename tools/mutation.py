#!/usr/bin/env python3
"""tools/mutation.py <prop> [--max N] [--jobs J] [--seed S] [--json out.json]

Mutation run for one property (thorough tier / development aid): every binary operator inside the functions that carry a
proved contract for the property is a mutation site (enumerated by `govc mutsites` from the typed syntax trees). A sample
of the sites (all of them when --max 0) is mutated one at a time in scratch copies of /repo's working tree (outside
/repo and /verif, removed afterwards) and the function's obligations are regenerated there. A mutant is *killed* when the
check reports a VIOLATION, *invalid* when the mutated package no longer loads, *survived* otherwise. Survivors are either
equivalent mutants or places where the contract is weaker than the code; they are listed for triage and never change a
verdict."""
import sys, os, subprocess, random, json, shutil, tempfile, argparse, concurrent.futures, time

ap = argparse.ArgumentParser()
ap.add_argument('prop'); ap.add_argument('--max', type=int, default=24); ap.add_argument('--jobs', type=int, default=4)
ap.add_argument('--seed', type=int, default=int(os.environ.get('VERIF_SEED', '1') or 1)); ap.add_argument('--json', default='')
ap.add_argument('--repo', default=os.environ.get('VERIF_REPO', '/repo')); ap.add_argument('--govc', default='/verif/bin/govc')
a = ap.parse_args()
V = '/verif'
env = dict(os.environ, GOFLAGS='-mod=mod', GOPROXY='off', VERIF_DROP_SMT='1')
out = subprocess.run([a.govc, 'mutsites', '-prop', a.prop, '-repo', a.repo, '-verif', V], capture_output=True, text=True, env=env).stdout
sites = [l.split('\t') for l in out.strip().split('\n') if l.count('\t') == 5]
total = len(sites)
rnd = random.Random(a.seed * 1000003 + sum(map(ord, a.prop)))
if a.max and len(sites) > a.max:
    sites = rnd.sample(sites, a.max)
sites.sort()

def run(site):
    f, off, old, new, fn, line = site
    off = int(off)
    scr = tempfile.mkdtemp(prefix='verif_mut_%s_' % a.prop, dir='/var/tmp')
    try:
        subprocess.run(['rsync', '-a', '--exclude', '.git', a.repo + '/', scr + '/'], check=True)
        rel = os.path.relpath(f, a.repo)
        p = os.path.join(scr, rel)
        data = open(p, 'rb').read()
        if data[off:off + len(old)] != old.encode():
            return (site, 'invalid', 'operator not found at offset')
        open(p, 'wb').write(data[:off] + new.encode() + data[off + len(old):])
        r = subprocess.run([a.govc, 'check', '-prop', a.prop, '-repo', scr, '-verif', V, '-no-evidence', '-only', fn],
                           capture_output=True, text=True, env=env, timeout=900)
        o = r.stdout + r.stderr
        if 'load failed' in o:
            return (site, 'invalid', 'does not compile')
        if 'panic:' in o and 'VIOLATION' not in o:
            return (site, 'invalid', 'engine crash (reported, not counted as survived)')
        if 'VIOLATION' in o:
            first = [l for l in o.split('\n') if l.startswith('FAILED') or l.startswith('VIOLATION')][:1]
            return (site, 'killed', first[0][:160] if first else '')
        return (site, 'survived', '')
    except Exception as e:
        return (site, 'invalid', str(e)[:100])
    finally:
        shutil.rmtree(scr, ignore_errors=True)

t0 = time.time()
res = []
with concurrent.futures.ThreadPoolExecutor(max_workers=a.jobs) as ex:
    for r in ex.map(run, sites):
        res.append(r)
        s = r[0]
        print('mutant %-9s %s:%s %s -> %s  (%s) %s' % (r[1], os.path.relpath(s[0], a.repo), s[5], s[2], s[3], s[4].split('/')[-1], r[2][:100]), flush=True)
killed = sum(1 for r in res if r[1] == 'killed'); surv = [r for r in res if r[1] == 'survived']; inv = sum(1 for r in res if r[1] == 'invalid')
summary = {'property': a.prop, 'sites_total': total, 'sampled': len(sites), 'killed': killed, 'survived': len(surv), 'invalid': inv,
           'seed': a.seed, 'wall_s': round(time.time() - t0, 1),
           'survivors': ['%s:%s %s -> %s in %s' % (os.path.relpath(r[0][0], a.repo), r[0][5], r[0][2], r[0][3], r[0][4].split('/')[-1]) for r in surv]}
print('mutation: property=%s sites=%d sampled=%d killed=%d survived=%d invalid=%d (%.0fs)' % (a.prop, total, len(sites), killed, len(surv), inv, time.time() - t0))
if a.json:
    json.dump(summary, open(a.json, 'w'), indent=1)
