#!/bin/bash
# tools/confirm7.sh : re-runs the demonstration of every batch-7 seed on the seeding agent's worktree (/var/tmp/seed7_<id>)
C=/verif/tools/confirm_seed.sh
run() { echo "#### $1"; $C /var/tmp/seed7_$1 "$2" "$3" $4 2>&1 | grep -E "^==|^ok|^FAIL|^---|CONFIRM" | cut -c1-200; }
run C01 'TestExitRootWithLongMetadata' './bridgesync/' './bridgesync/...'
run C04 'TestC04' './bridgesync/' './tree/...'
run C08 'TestSeedC08' './tree/' './tree/...'
run C09 'TestC09_' './aggsender/flows/' './aggsender/flows/...'
run C11 'TestSeedC11' './l1infotreesync/' './tree/...'
run C14 'TestSeedC14' './l1infotreesync/' './aggoracle/...'
run C17 'TestSeedC17' './aggsender/flows/' './aggsender/flows/...'
run C18 'TestC18' './aggsender/' './aggsender/'
run C19 'TestSeedC19' './agglayer/types/ ./agglayer/grpc/' './agglayer/...'
run C20 'TestSeedC20' './bridgesync/' './bridgesync/...'
