#!/bin/bash
# tools/confirm8.sh : re-runs the demonstration of every batch-8 seed on the seeding agent's worktree (/var/tmp/seed8_<id>)
C=/verif/tools/confirm_seed.sh
run() { echo "#### $1"; $C /var/tmp/seed8_$1 "$2" "$3" $4 2>&1 | grep -E "^==|^ok|^FAIL|^---|CONFIRM" | cut -c1-200; }
run C02 'TestSeedC02' './aggsender/' './aggsender/db/...'
run C03 'TestSeedC03' './aggsender/flows/' './aggsender/flows/...'
run C05 'TestSeedC05' './sync/' './sync/...'
run C06 'TestSeedC06' './reorgdetector/' './reorgdetector/...'
run C07 'TestSeedC07' './bridgesync/' './bridgesync/...'
run C10 'TestSeedC10' './agglayer/grpc/' './agglayer/...'
run C12 'TestSeedC12' './bridgeservice/' './bridgeservice/...'
run C13 'TestSeedC13' './aggsender/statuschecker/' './aggsender/statuschecker/...'
run C15 'TestSeedC15' './aggoracle/ ./aggoracle/chaingersender/' './aggoracle/...'
run C16 'TestSeedC16' './lastgersync/' './lastgersync/...'
