#!/bin/bash
# tools/bounded_c18.sh quick|thorough : bounded stand-in for assumption A7 (floats as reals) of property C18.
# Runs the real isNotificationRequired exhaustively below a bound and merges the outcome into evidence/C18.json.
MODE=${1:-quick}; V=$(cd "$(dirname "$0")/.." && pwd); REPO=${VERIF_REPO:-/repo}
export GOFLAGS=-mod=mod GOPROXY=off
B=400; [ "$MODE" = thorough ] && B=2500
mkdir -p $V/out/C18 $V/replays/C18
OV=$V/out/C18/overlay_bounded.json
echo "{\"Replace\": {\"$REPO/aggsender/zz_verif_bounded_c18_test.go\": \"$V/bounded/c18_float_test.go\"}}" > $OV
T0=$(date +%s.%N)
OUT=$(cd $REPO && VERIF_C18_BOUND=$B go test -overlay $OV -vet=off -count=1 -v -timeout 900s -run TestVerifBoundedC18 ./aggsender/ 2>&1)
RC=$?
T1=$(date +%s.%N)
LINE=$(echo "$OUT" | grep '^VERIF-BOUNDED C18' | head -1)
FIRST=$(echo "$OUT" | grep '^VERIF-BOUNDED-FIRST' | head -1 | sed 's/^VERIF-BOUNDED-FIRST //')
echo "bounded: ${LINE:-no result line (harness did not run: rc=$RC)}"
[ -n "${VERIF_NO_EVIDENCE:-}" ] || python3 - "$V" "$MODE" "$B" "$LINE" "$FIRST" "$RC" "$T0" "$T1" <<'PY'
import json,sys,re
V,mode,B,line,first,rc,t0,t1=sys.argv[1:9]
f=V+'/evidence/C18.json'
try: d=json.load(open(f))
except Exception: sys.exit(0)
m=re.search(r'evaluations=(\d+) nontrivial=(\d+) mismatches=(\d+)',line or '')
b={"label":"BOUNDED (not a proof): real isNotificationRequired run exhaustively for NumBlockPerEpoch in 1.."+B+", every position of two epochs, every percentage 0..100, against the exact rational comparison","bound":int(B),"ran":bool(m)}
if m: b.update({"evaluations":int(m.group(1)),"on_or_next_to_threshold":int(m.group(2)),"mismatches":int(m.group(3))})
if first: b["first_mismatch"]=first
b["wall_s"]=round(float(t1)-float(t0),2)
d.setdefault("coverage",{})["bounded_checks"]=[b]
d.setdefault("assumptions",[]).append("A7 (float64 as exact reals) is cross-checked only BOUNDED: exhaustively for epoch lengths up to "+B+"; larger epoch lengths rest on the assumption")
if m and int(m.group(3))>0: d["violations"]=d.get("violations",0)+1
d["wall_s"]=round(d.get("wall_s",0)+float(t1)-float(t0),2)
json.dump(d,open(f,'w'),indent=1)
PY
if echo "$LINE" | grep -q 'mismatches=0$'; then exit 0; fi
if [ -z "$LINE" ]; then echo "$OUT" | tail -5; echo "VIOLATION property=C18 replay=$V/replays/C18/bounded_float.json no-failing-input-found"; echo "{\"obligation\":\"bounded float cross-check did not run\",\"output\":$(echo "$OUT" | tail -20 | python3 -c 'import json,sys; print(json.dumps(sys.stdin.read()))')}" > $V/replays/C18/bounded_float.json; exit 1; fi
echo "{\"obligation\":\"C18 bounded float cross-check (assumption A7)\",\"failing_input\":$(python3 -c 'import json,sys; print(json.dumps(sys.argv[1]))' "$FIRST"),\"how_to_replay\":\"VERIF_C18_BOUND=$B go test -overlay $OV -vet=off -run TestVerifBoundedC18 ./aggsender/\"}" > $V/replays/C18/bounded_float.json
echo "VIOLATION property=C18 replay=$V/replays/C18/bounded_float.json"
exit 1
