#!/bin/bash
# tools/confirm13.sh : re-runs the demonstration of every batch-13 seed on the seeding agent's worktree (/var/tmp/seed13_<id>)
C=/verif/tools/confirm_seed.sh
run() { [ -d /var/tmp/seed13_$1/_seed ] || return; echo "#### $1"; $C /var/tmp/seed13_$1 "$2" "$3" $4 2>&1 | grep -E "^==|^ok|^FAIL|^---|CONFIRM" | cut -c1-200; }
run C14 'TestSeedC14' './bridgesync/' './bridgesync/...'
run C16 'TestSeedC16' './lastgersync/' './lastgersync/...'
run C04 'TestSeedC04' './bridgesync/' './db/... ./tree/... ./lastgersync/... ./bridgesync/...'
run C07 'TestSeedC07' './bridgesync/' './tree/... ./bridgesync/... ./l1infotreesync/...'
