#!/bin/bash
# run all quick checks with a given govc binary, no evidence
G=${1:-/verif/bin/govc}
cd /verif
for i in 01 02 03 04 05 06 07 08 09 10 11 12 13 14 15 16 17 18 19 20; do
  VERIF_DROP_SMT=1 $G check -prop C$i -no-evidence 2>&1 | grep -E "^FAILED|^govc:|KNOWN|^VIOLATION|panic" | cut -c1-260
done
