#!/bin/bash
# tools/confirm6.sh : re-runs the demonstration of every batch-6 seed on the seeding agent's worktree (/var/tmp/seed6_<id>)
C=/verif/tools/confirm_seed.sh
run() { echo "#### $1"; $C /var/tmp/seed6_$1 "$2" "$3" $4 2>&1 | grep -E "^==|^ok|^FAIL|^---|CONFIRM" | cut -c1-200; }
run C02 'TestC02_' './aggsender/' './aggsender/types/...'
run C03 'TestC03Seed' './aggsender/flows/' './aggsender/query/...'
run C05 'TestC05Demo' './sync/' './sync/...'
run C06 'TestSeedC06' './reorgdetector/' './reorgdetector/...'
run C07 'TestSeedC07' './l1infotreesync/' './tree/...'
run C10 'TestC10Demo' './agglayer/grpc/' './agglayer/...'
run C12 'TestC12' './l1infotreesync/' './bridgeservice/...'
run C13 'TestC13' './aggsender/statuschecker/' './aggsender/statuschecker/...'
run C15 'TestC15' './l1infotreesync/' './aggoracle/chaingersender/...'
run C16 'TestSeedC16' './lastgersync/' './sync/...'
