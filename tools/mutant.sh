#!/bin/bash
# tools/mutant.sh <prop> <file> <sed-expr>  : apply a one-line edit to /repo, run the quick check, revert.
P=$1; F=$2; E=$3
if [ -n "$(git -C /repo status --porcelain)" ]; then echo "refusing: /repo has uncommitted changes"; exit 4; fi
cd /repo && sed -i "$E" "$F" && git diff --stat | head -3
if git diff --quiet; then echo "MUTANT DID NOT APPLY"; exit 3; fi
cd /verif && ./bin/govc check -prop $P -no-evidence 2>&1 | grep -E "^FAILED|^govc:|KNOWN|^VIOLATION" | cut -c1-220 | tail -6
cd /repo && git checkout -- "$F"
