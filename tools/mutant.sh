#!/bin/bash
# tools/mutant.sh <prop> <file> <sed-expr> [-only substr] : apply a one-line edit to a scratch copy of /repo's working
# tree (outside /repo and /verif, removed afterwards) and run the quick check of <prop> there. /repo is not touched.
P=$1; F=$2; E=$3; shift 3
SCR=$(mktemp -d /var/tmp/verif_mutant_${P}_XXXXXX)
trap 'rm -rf "$SCR" /verif/replays/$P' EXIT
rsync -a --exclude .git /repo/ "$SCR/"
sed -i "$E" "$SCR/$F"
if cmp -s "/repo/$F" "$SCR/$F"; then echo "MUTANT DID NOT APPLY"; exit 3; fi
diff "/repo/$F" "$SCR/$F" | head -4
cd /verif && VERIF_DROP_SMT=1 ./bin/govc check -prop $P -repo "$SCR" -verif /verif -no-evidence "$@" 2>&1 | grep -E "^FAILED|^govc:|^VIOLATION|panic" | grep -v KNOWN | cut -c1-220 | tail -6
