#!/usr/bin/env python3
"""Regenerates /verif/MANIFEST.json from tools/claims.json (one entry per property)."""
import json, os, subprocess
here = os.path.dirname(os.path.abspath(__file__))
root = os.path.dirname(here)
claims = json.load(open(os.path.join(here, "claims.json")))
props = [json.loads(l)["id"] for l in open(os.path.join(root, "properties.jsonl"))]
hooks_commits = []
try:
    out = subprocess.check_output(["git", "-C", "/repo", "log", "--format=%H %s"], text=True)
    for l in out.splitlines():
        h, s = l.split(" ", 1)
        if s.startswith("verif:"):
            hooks_commits.append(h)
except Exception:
    pass
baseline = json.load(open("/root/.vp/BASELINE.json"))["cmd"]
checks, na = [], []
for pid in props:
    c = claims.get(pid, {})
    if c.get("claimed"):
        checks.append({
            "property_id": pid,
            "quick_cmd": f"./check {pid} quick",
            "thorough_cmd": f"./check {pid} thorough",
            "evidence_file": f"/verif/evidence/{pid}.json",
            "replay_cmd_template": f"./check {pid} --replay {{path}}",
            "engine": "govc",
            "level_claimed": {"category": "proof", "text": c["text"], "design_ref": c.get("design_ref", f"DESIGN.md §4 {pid}")},
            "level_note": c["note"],
            "technique": c.get("technique", "contract-based deductive verification: weakest-precondition VCs generated from go/ssa of the real functions, discharged by z3/cvc5"),
        })
    else:
        na.append({"property_id": pid, "reason": c.get("reason", "not claimed in this commit: contracts for this property are not yet discharged robustly (see DESIGN.md §7)")})
m = {
    "version": 1,
    "setup_cmd": "cd /verif/govc && GOFLAGS=-mod=mod GOPROXY=off go build -o /verif/bin/govc .",
    "hooks": {
        "guard": "verif",
        "enable": "-tags verif (contract files zz_verif_contracts.go are comment-only and carry //go:build verif)",
        "baseline_off_cmd": baseline,
        "source_commits": hooks_commits,
        "add_only": True,
    },
    "engines": [{"name": "govc", "path": "/verif/govc", "serves_properties": [c["property_id"] for c in checks],
                 "kind_free_text": "verification-condition generator over go/ssa with contracts in //@ comments; obligations discharged by a z3-new / z3 / cvc5 portfolio; counterexample replay through go test -overlay"}],
    "checks": checks,
    "not_applicable": na,
    "notes": "Every check rebuilds SSA and obligations from /repo's working tree. known findings: /verif/known_findings.txt.",
}
json.dump(m, open(os.path.join(root, "MANIFEST.json"), "w"), indent=1)
print("claimed:", [c["property_id"] for c in checks])
