#!/usr/bin/env python3
"""tools/resurvive.py <prop> <mutation-log> : re-run the survivors listed in an earlier mutation log (lines
"mutant survived <file>:<line> <op> -> <op>") with the current govc and the whole quick check of the property (closure
included). Development aid for triage; prints killed / survived / CRASH per mutant."""
import sys, os, re, subprocess, tempfile, shutil, concurrent.futures
prop = sys.argv[1]; log = sys.argv[2]
env = dict(os.environ, GOFLAGS='-mod=mod', GOPROXY='off', VERIF_DROP_SMT='1')
out = subprocess.run(['/verif/bin/govc', 'mutsites', '-prop', prop, '-repo', '/repo', '-verif', '/verif'], capture_output=True, text=True, env=env).stdout
sites = [l.split('\t') for l in out.strip().split('\n') if l.count('\t') == 5]
want = set()
for l in open(log):
    m = re.match(r'mutant survived\s+(\S+):(\d+) (\S+) -> (\S+)', l)
    if m:
        want.add((m.group(1), m.group(2), m.group(3), m.group(4)))
todo = [s for s in sites if (os.path.relpath(s[0], '/repo'), s[5], s[2], s[3]) in want]


def run(site):
    f, off, old, new, fn, line = site
    off = int(off)
    scr = tempfile.mkdtemp(prefix='verif_mut_%s_' % prop, dir='/var/tmp')
    try:
        subprocess.run(['rsync', '-a', '--exclude', '.git', '/repo/', scr + '/'], check=True)
        p = os.path.join(scr, os.path.relpath(f, '/repo'))
        d = open(p, 'rb').read()
        if d[off:off + len(old)] != old.encode():
            return (site, 'invalid')
        open(p, 'wb').write(d[:off] + new.encode() + d[off + len(old):])
        r = subprocess.run(['/verif/bin/govc', 'check', '-prop', prop, '-repo', scr, '-verif', '/verif', '-no-evidence'],
                           capture_output=True, text=True, env=env, timeout=1800)
        o = r.stdout + r.stderr
        if 'panic:' in o:
            return (site, 'CRASH')
        return (site, 'killed' if 'VIOLATION' in o else 'survived')
    finally:
        shutil.rmtree(scr, ignore_errors=True)


with concurrent.futures.ThreadPoolExecutor(max_workers=int(os.environ.get('JOBS', '3'))) as ex:
    for s, v in ex.map(run, todo):
        print('%-8s %s:%s %s -> %s (%s)' % (v, os.path.relpath(s[0], '/repo'), s[5], s[2], s[3], s[4].split('/')[-1]), flush=True)
