#!/bin/bash
# tools/confirm_seed.sh <worktree> <demo-run-regex> <demo-pkg(s)> <existing-test-pkgs...>
# Confirms a seeded change: builds, existing tests pass with the patch (demo excluded), demo fails with and passes without.
WT=$1; RE=$2; DEMOPKGS=$3; shift 3; PKGS="$@"
export GOFLAGS=-mod=mod GOPROXY=off
cd $WT || exit 2
git apply --check _seed/patch.diff || { echo "CONFIRM: patch does not apply"; exit 2; }
echo "== demo WITHOUT patch (must pass)"; go test -count=1 -run "$RE" $DEMOPKGS 2>&1 | tail -3; A=${PIPESTATUS[0]}
git apply _seed/patch.diff
echo "== build"; go build ./... 2>&1 | tail -3; B=${PIPESTATUS[0]}
echo "== existing tests WITH patch (must pass)"; go test -count=1 -skip "$RE|TestBridgeCallData|TestClaimCalldata" $PKGS 2>&1 | tail -15; C=${PIPESTATUS[0]}
echo "== demo WITH patch (must fail)"; go test -count=1 -run "$RE" $DEMOPKGS 2>&1 | tail -5; D=${PIPESTATUS[0]}
git apply -R _seed/patch.diff
echo "CONFIRM RESULT: demo-without=$A build=$B existing=$C demo-with=$D (want 0 0 0 nonzero)"
