#!/bin/bash
# tools/confirm10.sh : re-runs the demonstration of every batch-10 seed on the seeding agent's worktree (/var/tmp/seed10_<id>)
C=/verif/tools/confirm_seed.sh
run() { echo "#### $1"; $C /var/tmp/seed10_$1 "$2" "$3" $4 2>&1 | grep -E "^==|^ok|^FAIL|^---|CONFIRM" | cut -c1-200; }
run C01 'TestSeedC01' './bridgesync/' './tree/...'
run C04 'TestSeedC04' './l1infotreesync/' './tree/...'
run C08 'TestSeedC08' './tree/' './tree/...'
run C09 'TestSeedC09' './l1infotreesync/' './aggsender/query/...'
run C11 'TestSeedC11' './l1infotreesync/' './tree/...'
run C14 'TestSeedC14' './bridgesync/' './bridgesync/...'
run C17 'C17Seed10' './aggsender/types/ ./aggsender/flows/' './aggsender/types/...'
run C18 'TestSeedC18' './aggsender/' './aggsender/'
run C19 'TestSeedC19' './agglayer/types/' './agglayer/...'
run C20 'TestSeedC20' './bridgesync/' './bridgesync/...'
