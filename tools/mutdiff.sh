#!/bin/bash
# show survivors of the second campaign that were not survivors (or not sites) in the first
p=$1
grep "survived" /var/tmp/mut2/mut_$p.log | grep -v "^mutation" | sed 's/  */ /g' | cut -d' ' -f3- > /tmp/new_$p.txt
grep "survived" /var/tmp/mut_$p.log 2>/dev/null | grep -v "^mutation" | sed 's/  */ /g' | cut -d' ' -f3- > /tmp/old_$p.txt
echo "== $p new survivors:"; grep -vxFf /tmp/old_$p.txt /tmp/new_$p.txt
echo "-- $p still surviving: $(grep -cxFf /tmp/old_$p.txt /tmp/new_$p.txt)"
