#!/bin/bash
# tools/seedtest.sh <prop> <patch> : apply a seeded change to a scratch copy of /repo's committed tree (outside /repo
# and /verif, removed afterwards), run the quick check of <prop> on it. /repo itself is not touched, so this can run
# while contracts are being edited (the copy is HEAD, not the working tree).
P=$1; PATCH=$(readlink -f "$2")
SCR=$(mktemp -d /var/tmp/verif_seed_${P}_XXXXXX)
trap 'rm -rf "$SCR" /verif/replays/$P' EXIT
git -C /repo archive ${SEED_REV:-HEAD} | tar -x -C "$SCR"
( cd "$SCR" && patch -p1 -s < "$PATCH" ) || { echo "PATCH DOES NOT APPLY"; exit 3; }
echo "applied $(grep -c '^+++' "$PATCH") file(s) to $SCR"
cd /verif && VERIF_DROP_SMT=1 ${GOVC:-./bin/govc} check -prop $P -repo "$SCR" -verif /verif -no-evidence 2>&1 | grep -E "^FAILED|^govc:|KNOWN|^VIOLATION" | cut -c1-260 | tail -6
[ "$P" = "C18" ] && VERIF_REPO="$SCR" VERIF_NO_EVIDENCE=1 tools/bounded_c18.sh quick 2>&1 | grep -E "^bounded|^VIOLATION" | cut -c1-260
exit 0
