#!/bin/bash
# tools/seedtest.sh <prop> <patch> : apply a seeded change to /repo, run the quick check, undo it.
P=$1; PATCH=$(readlink -f "$2")
if [ -n "$(git -C /repo status --porcelain)" ]; then echo "refusing: /repo has uncommitted changes"; exit 4; fi
cd /repo && git apply "$PATCH" || { echo "PATCH DOES NOT APPLY"; exit 3; }
git diff --stat | tail -1
cd /verif && ./bin/govc check -prop $P -no-evidence 2>&1 | grep -E "^FAILED|^govc:|KNOWN|^VIOLATION" | cut -c1-260 | tail -6
[ "$P" = "C18" ] && VERIF_NO_EVIDENCE=1 tools/bounded_c18.sh quick 2>&1 | grep -E "^bounded|^VIOLATION" | cut -c1-260
cd /repo && git checkout -- . && git status --short | head -3
