#!/bin/bash
# tools/confirm9.sh : re-runs the demonstration of every batch-9 seed on the seeding agent's worktree (/var/tmp/seed9_<id>)
C=/verif/tools/confirm_seed.sh
run() { echo "#### $1"; $C /var/tmp/seed9_$1 "$2" "$3" $4 2>&1 | grep -E "^==|^ok|^FAIL|^---|CONFIRM" | cut -c1-200; }
run C02 'TestSeedC02' './aggsender/' './aggsender/flows/...'
run C03 'TestSeedC03' './aggsender/flows/' './aggsender/flows/...'
run C05 'TestSeedC05' './sync/' './sync/...'
run C06 'TestDemoC06' './sync/' './sync/...'
run C07 'TestC07' './l1infotreesync/' './sync/...'
run C10 'TestC10SeedDemo' './aggsender/' './aggsender/db/...'
run C12 'TestSeedC12' './l1infotreesync/' './bridgeservice/...'
run C13 'TestSeedC13' './aggsender/statuschecker/' './aggsender/statuschecker/...'
run C15 'TestSeedC15' './aggoracle/' './aggoracle/...'
run C16 'TestSeedC16' './lastgersync/' './lastgersync/...'
