package tree

// Demonstration of finding F1 (property C07 / C01 under faults), to be placed at tree/zz_f1_demo_test.go.
// A transaction that appended two or more leaves is rolled back; the same leaves are then appended again
// (the driver retries the block). With the defect the committed root differs from the root of a tree that never
// saw the failure.

import (
	"context"
	"database/sql"
	"fmt"
	"path"
	"testing"

	"github.com/agglayer/aggkit/db"
	"github.com/agglayer/aggkit/tree/migrations"
	"github.com/agglayer/aggkit/tree/types"
	"github.com/ethereum/go-ethereum/common"
	"github.com/stretchr/testify/require"
)

func f1NewDB(t *testing.T, name string) *sql.DB {
	dbPath := path.Join(t.TempDir(), name)
	require.NoError(t, migrations.RunMigrations(dbPath))
	d, err := db.NewSQLiteDB(dbPath)
	require.NoError(t, err)
	return d
}

func f1Leaf(i int) types.Leaf {
	return types.Leaf{Index: uint32(i), Hash: common.HexToHash(fmt.Sprintf("%x", 1000+i))}
}

func TestF1RollbackOfTwoLeavesThenRetry(t *testing.T) {
	ctx := context.Background()
	for _, pre := range []int{1, 3, 7} { // leaves committed before the failing transaction
		// reference: no failure
		refDB := f1NewDB(t, fmt.Sprintf("ref%d.sqlite", pre))
		ref := NewAppendOnlyTree(refDB, "")
		tx, err := db.NewTx(ctx, refDB)
		require.NoError(t, err)
		for i := 0; i < pre+2; i++ {
			require.NoError(t, ref.AddLeaf(tx, uint64(i), 0, f1Leaf(i)))
		}
		require.NoError(t, tx.Commit())
		want, err := ref.GetLastRoot(nil)
		require.NoError(t, err)

		// subject: the block with leaves pre, pre+1 fails after both AddLeaf calls and is retried
		d := f1NewDB(t, fmt.Sprintf("sub%d.sqlite", pre))
		tr := NewAppendOnlyTree(d, "")
		tx, err = db.NewTx(ctx, d)
		require.NoError(t, err)
		for i := 0; i < pre; i++ {
			require.NoError(t, tr.AddLeaf(tx, uint64(i), 0, f1Leaf(i)))
		}
		require.NoError(t, tx.Commit())

		tx, err = db.NewTx(ctx, d)
		require.NoError(t, err)
		require.NoError(t, tr.AddLeaf(tx, uint64(pre), 0, f1Leaf(pre)))
		require.NoError(t, tr.AddLeaf(tx, uint64(pre), 1, f1Leaf(pre+1)))
		require.NoError(t, tx.Rollback()) // a later statement of the block's transaction failed

		tx, err = db.NewTx(ctx, d)
		require.NoError(t, err)
		require.NoError(t, tr.AddLeaf(tx, uint64(pre), 0, f1Leaf(pre)))
		require.NoError(t, tr.AddLeaf(tx, uint64(pre), 1, f1Leaf(pre+1)))
		require.NoError(t, tx.Commit())
		got, err := tr.GetLastRoot(nil)
		require.NoError(t, err)
		require.Equal(t, want.Hash, got.Hash, "root after a rolled-back and retried two-leaf transaction (pre=%d)", pre)
	}
}
