package reorgdetector

// F7 (C06) demonstration. Place next to reorgdetector/reorgdetector.go and run:
//   go test ./reorgdetector/ -run TestF7 -count=1
// FAILS on the code before the fix (a block AddBlockToTrack reported as tracked is not in the durable store, so after a
// restart a reorg of that block is never noticed), PASSES after it.

import (
	"context"
	"path"
	"testing"
	"time"

	cfgtypes "github.com/agglayer/aggkit/config/types"
	"github.com/ethereum/go-ethereum/common"
	"github.com/ethereum/go-ethereum/ethclient/simulated"
	"github.com/stretchr/testify/require"
)

func TestF7TrackedBlockSurvivesATransientStoreFailure(t *testing.T) {
	clientL1 := simulated.NewBackend(nil, simulated.WithBlockGasLimit(10000000))
	dbPath := path.Join(t.TempDir(), "f7.sqlite")
	cfg := Config{DBPath: dbPath, CheckReorgsInterval: cfgtypes.NewDuration(time.Millisecond * 100)}
	rd, err := New(clientL1.Client(), cfg, L1)
	require.NoError(t, err)
	_, err = rd.Subscribe("syncer")
	require.NoError(t, err)

	ctx := context.Background()
	require.NoError(t, rd.AddBlockToTrack(ctx, "syncer", 10, common.HexToHash("0xa")))

	// one transient failure of the store while block 11 is being tracked (here: the table is locked away for a moment)
	_, err = rd.db.Exec("ALTER TABLE tracked_block RENAME TO tracked_block_away;")
	require.NoError(t, err)
	err = rd.AddBlockToTrack(ctx, "syncer", 11, common.HexToHash("0xb"))
	require.Error(t, err, "the store failed: the driver is told so and retries")
	_, err = rd.db.Exec("ALTER TABLE tracked_block_away RENAME TO tracked_block;")
	require.NoError(t, err)

	// the driver's retry (sync.EVMDriver.handleNewBlock repeats AddBlockToTrack until it returns nil, then processes the block)
	require.NoError(t, rd.AddBlockToTrack(ctx, "syncer", 11, common.HexToHash("0xb")))

	// the node is restarted: the tracked blocks are reloaded from the store
	rd2, err := New(clientL1.Client(), cfg, L1)
	require.NoError(t, err)
	tracked, err := rd2.getTrackedBlocks()
	require.NoError(t, err)
	require.Contains(t, tracked, "syncer")
	_, err = tracked["syncer"].get(10)
	require.NoError(t, err)
	_, err = tracked["syncer"].get(11)
	require.NoError(t, err, "block 11 was reported as tracked (and has been processed) but is not in the durable store: "+
		"after this restart a reorg of block 11 is never detected")
}
