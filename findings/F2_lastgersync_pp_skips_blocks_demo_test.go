package lastgersync

// Demonstration of finding F2 (property C16), to be placed at lastgersync/zz_f2_demo_test.go.
// The PP downloader of the injected-GER syncer is asked to download from block 5 (the node had processed block 4).
// Between two polls the L2 head moves by more than one block (5 -> 8 -> 12), as it does whenever blocks are produced
// faster than the polling period or while the node is down. Every block from 5 on must be scanned for GER events;
// the unrepaired downloader only ever queries the block that happens to be the head at each poll, so GER insertions
// and removals in the blocks in between are never indexed.

import (
	"context"
	"math/big"
	"sync"
	"testing"
	"time"

	aggkitsync "github.com/agglayer/aggkit/sync"
	aggkittypes "github.com/agglayer/aggkit/types"
	"github.com/agglayer/aggkit/types/mocks"
	"github.com/ethereum/go-ethereum"
	"github.com/ethereum/go-ethereum/common"
	"github.com/ethereum/go-ethereum/core/types"
	"github.com/stretchr/testify/mock"
	"github.com/stretchr/testify/require"
)

func TestF2PPDownloaderScansEveryBlock(t *testing.T) {
	finality, err := aggkittypes.LatestBlock.ToBlockNum()
	require.NoError(t, err)

	var (
		mu      sync.Mutex
		scanned = map[uint64]bool{}
		polls   int
	)
	heads := []uint64{8, 12}

	client := mocks.NewBaseEthereumClienter(t)
	client.On("HeaderByNumber", mock.Anything, mock.Anything).Return(
		func(_ context.Context, _ *big.Int) (*types.Header, error) {
			mu.Lock()
			defer mu.Unlock()
			h := heads[len(heads)-1]
			if polls < len(heads) {
				h = heads[polls]
			}
			polls++
			return &types.Header{Number: new(big.Int).SetUint64(h)}, nil
		}).Maybe()
	client.On("FilterLogs", mock.Anything, mock.Anything).Return(
		func(_ context.Context, q ethereum.FilterQuery) ([]types.Log, error) {
			mu.Lock()
			defer mu.Unlock()
			for b := q.FromBlock.Uint64(); b <= q.ToBlock.Uint64(); b++ {
				scanned[b] = true
			}
			return nil, nil
		}).Maybe()

	rh := &aggkitsync.RetryHandler{RetryAfterErrorPeriod: time.Millisecond, MaxRetryAttemptsAfterError: 5}
	d, err := newDownloaderPP(client, common.HexToAddress("0x1"), nil, nil, rh, finality, 5*time.Millisecond)
	require.NoError(t, err)

	ctx, cancel := context.WithCancel(context.Background())
	ch := make(chan aggkitsync.EVMBlock, 100)
	done := make(chan struct{})
	go func() {
		d.Download(ctx, 5, ch)
		close(done)
	}()

	require.Eventually(t, func() bool {
		mu.Lock()
		defer mu.Unlock()
		return scanned[12]
	}, 5*time.Second, 5*time.Millisecond, "the downloader never reached the head")
	cancel()
	<-done

	mu.Lock()
	defer mu.Unlock()
	for b := uint64(5); b <= 12; b++ {
		require.Truef(t, scanned[b], "L2 block %d was never scanned for GER events (scanned: %v)", b, scanned)
	}
}
