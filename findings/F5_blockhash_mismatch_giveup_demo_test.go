package sync

// Demonstration of finding F5 (property C05), to be placed at sync/zz_f5_demo_test.go.
//
// The node's RPC endpoint answers inconsistently for a short while about a block at the tip (block 25): the logs it
// returns carry one block hash, the header it returns for the same number another one - as happens for a moment
// behind a load balancer while a new head propagates, or during a one-block reorg. getEventsByBlockRangeWithRetry
// retries the range immediately and, after MaxRetryCountBlockHashMismatch consecutive mismatches (a few milliseconds),
// answers nil. Download cannot tell that from "no events in the range": because the range [1..26] straddles the
// finalized block 20, it reports block 20 as an event-less marker and continues at 21. The watched events of the
// finalized blocks 3 and 7 are never handed to the store, and the last-processed marker has moved past them.

import (
	"context"
	"math/big"
	gosync "sync"
	"testing"
	"time"

	aggkittypes "github.com/agglayer/aggkit/types"
	"github.com/ethereum/go-ethereum"
	"github.com/ethereum/go-ethereum/common"
	"github.com/ethereum/go-ethereum/core/types"
	"github.com/stretchr/testify/require"
)

type f5Chain struct {
	aggkittypes.BaseEthereumClienter
	mu           gosync.Mutex
	tip          uint64
	finalized    uint64
	headers      map[uint64]*types.Header
	logs         []types.Log
	inconsistent map[uint64]int // block -> how many header answers are still from the other fork
}

func newF5Chain(tip, finalized uint64, eventsPerBlock map[uint64]int) *f5Chain {
	c := &f5Chain{tip: tip, finalized: finalized, headers: map[uint64]*types.Header{}, inconsistent: map[uint64]int{}}
	parent := common.Hash{}
	for n := uint64(0); n <= tip; n++ {
		h := &types.Header{Number: new(big.Int).SetUint64(n), ParentHash: parent, Time: 1000 + n}
		c.headers[n] = h
		parent = h.Hash()
	}
	for n := uint64(0); n <= tip; n++ {
		for i := 0; i < eventsPerBlock[n]; i++ {
			c.logs = append(c.logs, types.Log{Address: contractAddr, BlockNumber: n, BlockHash: c.headers[n].Hash(), Index: uint(i),
				Topics: []common.Hash{eventSignature, common.BigToHash(new(big.Int).SetUint64(n*100 + uint64(i)))}})
		}
	}
	return c
}

func (c *f5Chain) ChainID(context.Context) (*big.Int, error) { return big.NewInt(1), nil }

func (c *f5Chain) HeaderByNumber(_ context.Context, number *big.Int) (*types.Header, error) {
	c.mu.Lock()
	defer c.mu.Unlock()
	var n uint64
	switch {
	case number == nil, number.Int64() == int64(aggkittypes.Latest), number.Int64() == int64(aggkittypes.Pending):
		n = c.tip
	case number.Int64() == int64(aggkittypes.Finalized), number.Int64() == int64(aggkittypes.Safe):
		n = c.finalized
	default:
		n = number.Uint64()
	}
	h, ok := c.headers[n]
	if !ok {
		return nil, ethereum.NotFound
	}
	cp := types.CopyHeader(h)
	if c.inconsistent[n] > 0 && number != nil && number.Sign() >= 0 {
		c.inconsistent[n]--
		cp.Extra = []byte("other fork") // same number, different hash
	}
	return cp, nil
}

func (c *f5Chain) FilterLogs(_ context.Context, q ethereum.FilterQuery) ([]types.Log, error) {
	c.mu.Lock()
	defer c.mu.Unlock()
	var res []types.Log
	for _, l := range c.logs {
		if l.BlockNumber >= q.FromBlock.Uint64() && l.BlockNumber <= q.ToBlock.Uint64() {
			res = append(res, l)
		}
	}
	return res, nil
}

func TestF5MarkerMovesPastFinalizedEventsAfterRepeatedHashMismatch(t *testing.T) {
	// one mismatch fewer is absorbed by the retries (control); one more and finalized events are skipped
	t.Run("control_5_mismatches", func(t *testing.T) { runF5(t, MaxRetryCountBlockHashMismatch) })
	t.Run("6_mismatches", func(t *testing.T) { runF5(t, MaxRetryCountBlockHashMismatch+1) })
}

func runF5(t *testing.T, mismatches int) {
	t.Helper()
	const (
		tip       = uint64(30)
		finalized = uint64(20)
		chunk     = uint64(25)
	)
	events := map[uint64]int{3: 1, 7: 2, 25: 1}
	chain := newF5Chain(tip, finalized, events)
	// the endpoint disagrees with itself about block 25 for the next few header requests only
	chain.inconsistent[25] = mismatches

	rh := &RetryHandler{MaxRetryAttemptsAfterError: 5, RetryAfterErrorPeriod: time.Millisecond}
	d, err := NewEVMDownloader("f5", chain, chunk, aggkittypes.LatestBlock, time.Millisecond,
		buildAppender(), []common.Address{contractAddr}, rh, aggkittypes.FinalizedBlock)
	require.NoError(t, err)

	ctx, cancel := context.WithCancel(context.Background())
	defer cancel()
	ch := make(chan EVMBlock, 1)
	go d.Download(ctx, 1, ch)

	var delivered []EVMBlock
	deadline := time.After(10 * time.Second)
loop:
	for {
		select {
		case b, ok := <-ch:
			if !ok {
				break loop
			}
			delivered = append(delivered, b)
			if b.Num >= 25 {
				cancel()
				break loop
			}
		case <-deadline:
			t.Fatal("downloader did not reach block 25")
		}
	}

	marker := uint64(0)
	for _, b := range delivered {
		for n := marker + 1; n < b.Num; n++ {
			require.Zerof(t, events[n],
				"the last-processed marker moves from %d to %d, past block %d whose %d watched event(s) were never delivered",
				marker, b.Num, n, events[n])
		}
		marker = b.Num
		require.Lenf(t, b.Events, events[b.Num], "block %d: wrong number of events", b.Num)
	}
}
