package bridgesync

// F9 (C04) demonstration. Place next to bridgesync/processor.go and run:
//   go test ./bridgesync/ -run TestF9 -count=1
// FAILS on the unmodified code: a RemoveLegacyToken event deletes the legacy_token_migration rows of EARLIER blocks;
// a reorg only drops the rows keyed by the reorged blocks, so when the block that carried the removal is reorged away
// the migration it deleted stays missing - the paged listing no longer answers "as if only blocks below b had ever
// been processed".

import (
	"context"
	"math/big"
	"path"
	"testing"

	"github.com/agglayer/aggkit/log"
	aggkitsync "github.com/agglayer/aggkit/sync"
	"github.com/ethereum/go-ethereum/common"
	"github.com/stretchr/testify/require"
)

func TestF9LegacyTokenRemovalInAReorgedBlockIsUndone(t *testing.T) {
	ctx := context.Background()
	p, err := newProcessor(path.Join(t.TempDir(), "f9.sqlite"), "f9", log.GetDefaultLogger())
	require.NoError(t, err)

	legacy := common.HexToAddress("0xaa01")
	// block 10: a legacy token migration is recorded
	require.NoError(t, p.ProcessBlock(ctx, aggkitsync.Block{Num: 10, Hash: common.HexToHash("0x10"), Events: []any{
		Event{LegacyTokenMigration: &LegacyTokenMigration{BlockNum: 10, BlockPos: 0, TxHash: common.HexToHash("0x1"),
			LegacyTokenAddress: legacy, UpdatedTokenAddress: common.HexToAddress("0xbb02"), Amount: big.NewInt(5)}},
	}}))
	before, n, err := p.GetLegacyTokenMigrations(ctx, 1, 10)
	require.NoError(t, err)
	require.Equal(t, 1, n)
	require.Len(t, before, 1)

	// block 11 (on a fork that will be abandoned): the legacy token is removed
	require.NoError(t, p.ProcessBlock(ctx, aggkitsync.Block{Num: 11, Hash: common.HexToHash("0x11"), Events: []any{
		Event{RemoveLegacyToken: &RemoveLegacyToken{BlockNum: 11, BlockPos: 0, TxHash: common.HexToHash("0x2"),
			LegacyTokenAddress: legacy}},
	}}))

	// the chain replaces block 11: on the canonical chain the removal never happened
	require.NoError(t, p.Reorg(ctx, 11))

	after, n, err := p.GetLegacyTokenMigrations(ctx, 1, 10)
	require.NoError(t, err, "after the reorg from block 11 the listing must answer as if only block 10 had been processed")
	require.Equal(t, 1, n, "the migration recorded in block 10 is gone: the removal seen in the dropped block 11 was not undone")
	require.Len(t, after, 1)
	require.Equal(t, before[0].LegacyTokenAddress, after[0].LegacyTokenAddress)
}
