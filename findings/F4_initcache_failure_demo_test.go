package tree

// Demonstration of finding F4 (property C07 / C01), to be placed at tree/zz_f4_demo_test.go.
// The frontier rebuild (initCache) hits a transient storage error after it has already set lastIndex.
// The failed AddLeaf is retried; because lastIndex now matches, the rebuild is skipped and the leaf is
// appended on top of a frontier cache that was never loaded: the committed root is wrong.

import (
	"context"
	"database/sql"
	"errors"
	"fmt"
	"path"
	"testing"

	"github.com/agglayer/aggkit/db"
	dbtypes "github.com/agglayer/aggkit/db/types"
	"github.com/agglayer/aggkit/tree/migrations"
	"github.com/agglayer/aggkit/tree/types"
	"github.com/ethereum/go-ethereum/common"
	"github.com/stretchr/testify/require"
)

// f4FailingTx fails the n-th Query issued through it (a transient storage fault).
type f4FailingTx struct {
	dbtypes.Txer
	failAt, calls int
}

func (f *f4FailingTx) Query(q string, args ...interface{}) (*sql.Rows, error) {
	f.calls++
	if f.calls == f.failAt {
		return nil, errors.New("injected transient storage error")
	}
	return f.Txer.Query(q, args...)
}

func f4Leaf(i int) types.Leaf {
	return types.Leaf{Index: uint32(i), Hash: common.HexToHash(fmt.Sprintf("%x", 5000+i))}
}

func f4DB(t *testing.T, name string) *sql.DB {
	dbPath := path.Join(t.TempDir(), name)
	require.NoError(t, migrations.RunMigrations(dbPath))
	d, err := db.NewSQLiteDB(dbPath)
	require.NoError(t, err)
	return d
}

func TestF4FailedRebuildThenRetry(t *testing.T) {
	ctx := context.Background()
	const pre = 5
	// reference tree: pre+1 leaves, no fault
	refDB := f4DB(t, "ref.sqlite")
	ref := NewAppendOnlyTree(refDB, "")
	tx, err := db.NewTx(ctx, refDB)
	require.NoError(t, err)
	for i := 0; i <= pre; i++ {
		require.NoError(t, ref.AddLeaf(tx, uint64(i), 0, f4Leaf(i)))
	}
	require.NoError(t, tx.Commit())
	want, err := ref.GetLastRoot(nil)
	require.NoError(t, err)

	// subject: pre leaves committed, then the node restarts (new in-memory tree over the same tables)
	d := f4DB(t, "sub.sqlite")
	first := NewAppendOnlyTree(d, "")
	tx, err = db.NewTx(ctx, d)
	require.NoError(t, err)
	for i := 0; i < pre; i++ {
		require.NoError(t, first.AddLeaf(tx, uint64(i), 0, f4Leaf(i)))
	}
	require.NoError(t, tx.Commit())
	restarted := NewAppendOnlyTree(d, "")

	// the first append after the restart rebuilds the frontier; its 3rd query fails
	tx, err = db.NewTx(ctx, d)
	require.NoError(t, err)
	err = restarted.AddLeaf(&f4FailingTx{Txer: tx, failAt: 3}, uint64(pre), 0, f4Leaf(pre))
	require.Error(t, err)
	require.NoError(t, tx.Rollback())

	// the driver retries the block
	tx, err = db.NewTx(ctx, d)
	require.NoError(t, err)
	require.NoError(t, restarted.AddLeaf(tx, uint64(pre), 0, f4Leaf(pre)))
	require.NoError(t, tx.Commit())
	got, err := restarted.GetLastRoot(nil)
	require.NoError(t, err)
	require.Equal(t, want.Hash, got.Hash, "root after a failed frontier rebuild and a retry")
}
