package lastgersync

// F8 (C16, C04) demonstration. Place next to lastgersync/processor.go and run:
//   go test ./lastgersync/ -run TestF8 -count=1
// FAILS on the unmodified code: a GER removal processed in a block that is later reorged away is not undone, so the
// injected-GER index lacks a root that is injected on the canonical chain and was never removed there.

import (
	"context"
	"path"
	"testing"

	aggkitsync "github.com/agglayer/aggkit/sync"
	"github.com/ethereum/go-ethereum/common"
	"github.com/stretchr/testify/require"
)

func TestF8RemovalInAReorgedBlockIsUndone(t *testing.T) {
	ctx := context.Background()
	p, err := newProcessor(path.Join(t.TempDir(), "f8.sqlite"))
	require.NoError(t, err)

	ger := common.HexToHash("0xa1")
	// block 10: the root is injected (L1 info tree index 3)
	require.NoError(t, p.ProcessBlock(ctx, aggkitsync.Block{Num: 10, Hash: common.HexToHash("0x10"), Events: []any{
		&Event{GEREvent: &GEREvent{BlockNum: 10, GlobalExitRoot: ger, L1InfoTreeIndex: 3}},
	}}))
	got, err := p.GetFirstGERAfterL1InfoTreeIndex(ctx, 0)
	require.NoError(t, err)
	require.Equal(t, ger, got.GlobalExitRoot)

	// block 11 (on a fork that will be abandoned): the root is removed
	require.NoError(t, p.ProcessBlock(ctx, aggkitsync.Block{Num: 11, Hash: common.HexToHash("0x11"), Events: []any{
		&Event{GEREvent: &GEREvent{BlockNum: 11, GlobalExitRoot: ger, IsRemove: true}},
	}}))
	_, err = p.GetFirstGERAfterL1InfoTreeIndex(ctx, 0)
	require.Error(t, err, "removed on the fork")

	// the chain replaces block 11: on the canonical chain the removal never happened
	require.NoError(t, p.Reorg(ctx, 11))
	require.NoError(t, p.ProcessBlock(ctx, aggkitsync.Block{Num: 11, Hash: common.HexToHash("0x11b")}))

	got, err = p.GetFirstGERAfterL1InfoTreeIndex(ctx, 0)
	require.NoError(t, err, "the root was injected in processed block 10 and never removed on the canonical chain, "+
		"but the removal seen in the dropped block 11 was not undone by the reorg")
	require.Equal(t, ger, got.GlobalExitRoot)
}
