package bridgesync

// Demonstration of finding F6 (property C07; also C05's marker clause), to be placed at
// bridgesync/zz_f6_demo_test.go.
//
// A storage fault is injected at one statement of the block's transaction - the INSERT of the new exit-tree root
// issued inside AppendOnlyTree.AddLeaf - for block 10, which carries a bridge. ProcessBlock reports
// sync.ErrInconsistentState although nothing is inconsistent and the store is NOT halted. The driver answers that
// report by giving the block up and cancelling the download (it does not retry), but it still processes the blocks
// that were already handed over: the next one (block 11, a claim only) is accepted and committed. A later block is
// recorded while an earlier one is missing, and the last-processed marker has moved past block 10 whose bridge was
// never stored. The repaired code reports the fault as an ordinary error, which the driver retries.

import (
	"context"
	"database/sql"
	"database/sql/driver"
	"errors"
	"fmt"
	"math/big"
	"path"
	"strings"
	gosync "sync"
	"testing"
	"time"

	aggkitdb "github.com/agglayer/aggkit/db"
	"github.com/agglayer/aggkit/db/compatibility"
	"github.com/agglayer/aggkit/log"
	"github.com/agglayer/aggkit/reorgdetector"
	"github.com/agglayer/aggkit/sync"
	"github.com/agglayer/aggkit/tree"
	aggkittypes "github.com/agglayer/aggkit/types"
	"github.com/ethereum/go-ethereum/common"
	sqlite3 "github.com/mattn/go-sqlite3"
	"github.com/stretchr/testify/require"
)

var errF6Injected = errors.New("injected storage fault")

type f6Ctl struct {
	mu     gosync.Mutex
	substr string
	left   int
}

func (f *f6Ctl) shouldFail(q string) bool {
	f.mu.Lock()
	defer f.mu.Unlock()
	if f.left > 0 && strings.Contains(strings.ToUpper(strings.ReplaceAll(q, `"`, "")), f.substr) {
		f.left--
		return true
	}
	return false
}

type f6Driver struct {
	inner driver.Driver
	ctl   *f6Ctl
}

func (d *f6Driver) Open(name string) (driver.Conn, error) {
	c, err := d.inner.Open(name)
	if err != nil {
		return nil, err
	}
	return &f6Conn{Conn: c, ctl: d.ctl}, nil
}

type f6Conn struct {
	driver.Conn
	ctl *f6Ctl
}

func (c *f6Conn) Prepare(q string) (driver.Stmt, error) {
	if c.ctl.shouldFail(q) {
		return nil, errF6Injected
	}
	return c.Conn.Prepare(q)
}

// a downloader that hands over a fixed list of blocks and then waits for the context to end
type f6Downloader struct{ blocks []sync.EVMBlock }

func (d *f6Downloader) Download(ctx context.Context, fromBlock uint64, ch chan sync.EVMBlock) {
	for _, b := range d.blocks {
		if b.Num >= fromBlock {
			ch <- b
		}
	}
	<-ctx.Done()
	close(ch)
}
func (d *f6Downloader) RuntimeData(context.Context) (sync.RuntimeData, error) {
	return sync.RuntimeData{ChainID: 1, Addresses: []common.Address{{1}}}, nil
}

type f6ReorgDetector struct{}

func (f6ReorgDetector) Subscribe(string) (*reorgdetector.Subscription, error) {
	return &reorgdetector.Subscription{ReorgedBlock: make(chan uint64), ReorgProcessed: make(chan bool)}, nil
}
func (f6ReorgDetector) AddBlockToTrack(context.Context, string, uint64, common.Hash) error { return nil }
func (f6ReorgDetector) GetFinalizedBlockType() aggkittypes.BlockNumberFinality {
	return aggkittypes.FinalizedBlock
}
func (f6ReorgDetector) String() string { return "f6" }

func TestF6InconsistencyReportWithoutHalt(t *testing.T) {
	dbPath := path.Join(t.TempDir(), "f6.sqlite")
	p, err := newProcessor(dbPath, "f6", log.WithFields("bridge-syncer", "f6"))
	require.NoError(t, err)
	require.NoError(t, p.db.Close())
	// same file, same DSN as db.NewSQLiteDB, opened through the fault-injecting driver
	ctl := &f6Ctl{}
	sql.Register("sqlite3_f6", &f6Driver{inner: &sqlite3.SQLiteDriver{}, ctl: ctl})
	database, err := sql.Open("sqlite3_f6",
		fmt.Sprintf("file:%s?_txlock=exclusive&_foreign_keys=on&_journal_mode=WAL&_busy_timeout=300", dbPath))
	require.NoError(t, err)
	defer database.Close()
	p.db = database
	p.exitTree = tree.NewAppendOnlyTree(database, "")
	p.CompatibilityDataStorager = compatibility.NewKeyValueToCompatibilityStorage[sync.RuntimeData](
		aggkitdb.NewKeyValueStorage(database), "f6")

	bridge := func(dc uint32) Event {
		return Event{Bridge: &Bridge{BlockNum: 10, DepositCount: dc, Amount: big.NewInt(1), Metadata: []byte{}}}
	}
	claim := Event{Claim: &Claim{BlockNum: 11, GlobalIndex: big.NewInt(7), Amount: big.NewInt(1),
		ProofLocalExitRoot: [32]common.Hash{}, ProofRollupExitRoot: [32]common.Hash{}}}
	blocks := []sync.EVMBlock{
		{EVMBlockHeader: sync.EVMBlockHeader{Num: 10, Hash: common.HexToHash("0x10")}, IsFinalizedBlock: true, Events: []interface{}{bridge(0)}},
		{EVMBlockHeader: sync.EVMBlockHeader{Num: 11, Hash: common.HexToHash("0x11")}, IsFinalizedBlock: true, Events: []interface{}{claim}},
	}

	// one transient fault: the first INSERT into the root table fails once
	ctl.mu.Lock()
	ctl.substr, ctl.left = "INSERT INTO ROOT", 1
	ctl.mu.Unlock()

	rh := &sync.RetryHandler{RetryAfterErrorPeriod: time.Millisecond, MaxRetryAttemptsAfterError: 50}
	driverUnderTest, err := sync.NewEVMDriver(f6ReorgDetector{}, p, &f6Downloader{blocks: blocks}, "f6", 10, rh, false)
	require.NoError(t, err)
	ctx, cancel := context.WithCancel(context.Background())
	go driverUnderTest.Sync(ctx)

	// give the driver time to drain what the downloader handed over
	require.Eventually(t, func() bool {
		lpb, err := p.GetLastProcessedBlock(context.Background())
		return err == nil && lpb >= 11
	}, 5*time.Second, 10*time.Millisecond, "block 11 was never processed (expected: block 10 retried, then 11)")
	cancel()

	var n int
	require.NoError(t, database.QueryRow(`SELECT COUNT(*) FROM bridge WHERE block_num = 10`).Scan(&n))
	require.Equalf(t, 1, n,
		"block 11 is recorded (last processed block >= 11) while the bridge of block 10 is missing: a later block was recorded while an earlier one is missing (halted=%v)", p.halted)
}
